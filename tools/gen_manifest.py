#!/venv/bin/python
"""Regenerate MANIFEST.json from the property modules that exist (and validate it)."""
import importlib
import json
import os
import sys

VERIF = os.path.dirname(os.path.dirname(os.path.abspath(__file__)))
sys.path.insert(0, VERIF)
sys.path.insert(0, "/repo")

from vf.props import ALL_PROPS  # noqa: E402

SETUP = ("/venv/bin/python -c 'import hypothesis' 2>/dev/null || /venv/bin/pip install --no-index "
         "--find-links /opt/veriftools/wheels hypothesis; "
         "/venv/bin/python -c 'import sys; sys.path.insert(0, \".deps\"); import atheris' 2>/dev/null || "
         "/venv/bin/pip install --no-index --find-links /opt/veriftools/wheels --target .deps atheris "
         "|| true; /venv/bin/python -c 'import hypothesis, py_ecc; print(\"setup ok\")'")

BASE = ("cd /repo && /venv/bin/python -m pytest -ra -q -p no:cacheprovider --timeout=900 "
        "--continue-on-collection-errors")


def main():
    checks, na = [], []
    for p in ALL_PROPS:
        try:
            m = importlib.import_module(f"vf.props.{p.lower()}")
        except ModuleNotFoundError:
            na.append({"property_id": p, "reason": "check not built yet in this round; design in "
                       "DESIGN.md section 4"})
            continue
        c = {
            "property_id": p,
            "quick_cmd": f"./check {p} quick",
            "thorough_cmd": f"./check {p} thorough",
            "evidence_file": f"/verif/evidence/{p}.json",
            "replay_cmd_template": "./check --replay {path}",
            "engine": "vf",
            "level_claimed": {
                "category": "exploration",
                "text": m.LEVEL_TEXT if hasattr(m, "LEVEL_TEXT") else m.RULE,
                "design_ref": f"DESIGN.md section 4, {p}",
            },
            "level_note": "; ".join(getattr(m, "ASSUMPTIONS", [])) or "see DESIGN.md section 3",
            "technique": getattr(m, "TECHNIQUE", "property-based testing (Hypothesis) against an "
                                 "independent reference model"),
        }
        checks.append(c)
    man = {
        "version": 1,
        "setup_cmd": SETUP,
        "hooks": {
            "guard": "PY_ECC_VERIF",
            "enable": "no source hooks: all instrumentation is done at run time by the harness "
                      "(module attributes wrapped/replaced inside the check process); checks import "
                      "the working tree at /repo (or $VERIF_REPO) directly",
            "baseline_off_cmd": BASE,
            "source_commits": [],
            "add_only": True,
        },
        "engines": [{
            "name": "vf",
            "path": "/verif/vf",
            "serves_properties": [c["property_id"] for c in checks],
            "kind_free_text": "Hypothesis property-based tests, exhaustive small-field/small-curve "
                              "enumeration and atheris fuzz targets, each with an explicit oracle "
                              "(independent model, differential pair, algebraic law, round trip)",
        }],
        "checks": checks,
        "notes": "fix: commits in /repo (F1 iterative __pow__, F2 KeyValidate length, F3 eq at "
                 "infinity) are recorded in known_findings.json; see DESIGN.md section 0",
    }
    if na:
        man["not_applicable"] = na
    with open(os.path.join(VERIF, "MANIFEST.json"), "w") as fh:
        json.dump(man, fh, indent=1)
    try:
        import jsonschema
        jsonschema.validate(man, json.load(open("/root/.vp/MANIFEST.schema.json")))
        print("MANIFEST.json valid;", len(checks), "checks,", len(na), "not_applicable")
    except ImportError:
        print("jsonschema not importable here; wrote MANIFEST.json without validation")


if __name__ == "__main__":
    main()
