#!/venv/bin/python
"""Regenerate the two tables of DESIGN.md section 9 (between the AUTO markers):
  - mutants:  from a log of `tools/sensitivity.py run --all` (path given, default mutants/last_run.log)
  - seeded:   from seeded/*/meta.json
"""
import glob
import json
import os
import re
import sys

VERIF = os.path.dirname(os.path.dirname(os.path.abspath(__file__)))
sys.path.insert(0, VERIF)
from mutants.catalog import MUTANTS  # noqa: E402


def mutant_table(log):
    res = {}
    if os.path.exists(log):
        for line in open(log):
            m = re.match(r"^(\S+)\s+(C\d\d)\s+(caught|MISSED|quiet-ok|FALSE-ALARM|HARNESS-ERROR)\s+([\d.]+)s", line)
            if m:
                res[(m.group(1), m.group(2))] = (m.group(3), m.group(4))
    rows = ["| mutant | what it changes | expected | " + "result per property (quick tier) |", "|---|---|---|---|"]
    n_c = n_m = n_q = 0
    for m in MUTANTS:
        cells = []
        for p in m["props"]:
            r = res.get((m["id"], p))
            if r is None:
                cells.append(f"{p}: not run")
            else:
                cells.append(f"{p}: {r[0]}")
                n_c += r[0] == "caught"
                n_m += r[0] in ("MISSED", "FALSE-ALARM", "HARNESS-ERROR")
                n_q += r[0] == "quiet-ok"
        exp = "quiet (equivalent/control)" if m.get("expect") == "quiet" else "caught"
        rows.append(f"| `{m['id']}` | {m.get('note', '')} | {exp} | {'; '.join(cells)} |")
    head = (f"{len(MUTANTS)} mutants; (mutant, property) pairs: {n_c} caught, {n_q} quiet as expected "
            f"(equivalent mutants used as false-alarm controls), {n_m} not as expected.\n\n")
    return head + "\n".join(rows)


def seeded_table():
    rows = ["| seed | breaks | what it needs to manifest | suite with patch | demo (patched / unchanged) | checks |",
            "|---|---|---|---|---|---|"]
    for mp in sorted(glob.glob(os.path.join(VERIF, "seeded", "*", "meta.json"))):
        m = json.load(open(mp))
        ran = m.get("what_i_ran", {})
        ts = ran.get("test_suite_with_patch", {})
        prim = m.get("breaks_property")
        parts = []
        for p, c in sorted(m.get("checks", {}).items(), key=lambda t: (t[0] != prim, t[0])):
            txt = f"{p}: {c['verdict']}" + (f" ({c['first_lines'][0].strip()[:70]})" if c.get("first_lines") else "")
            if p != prim:
                txt = "also run, other property: " + txt
            parts.append(txt)
        checks = "; ".join(parts)
        hist = m.get("history", "")
        rows.append(f"| `{m['seed_id']}` | {m.get('breaks_property')} | {m.get('needs_to_manifest', '')} | "
                    f"{'pass' if ts.get('exit') == 0 else 'FAIL' if ts else 'n/a'} | "
                    f"{ran.get('demo_with_patch_exit')} / {ran.get('demo_unchanged_exit')} | {checks}{' — ' + hist if hist else ''} |")
    return "\n".join(rows)


def main():
    log = sys.argv[1] if len(sys.argv) > 1 else os.path.join(VERIF, "mutants", "last_run.log")
    path = os.path.join(VERIF, "DESIGN.md")
    s = open(path).read()
    for tag, body in (("MUTANTS", mutant_table(log)), ("SEEDED", seeded_table())):
        a, b = f"<!-- AUTO:{tag}:BEGIN -->", f"<!-- AUTO:{tag}:END -->"
        if a in s and b in s:
            s = s[:s.index(a) + len(a)] + "\n" + body + "\n" + s[s.index(b):]
    open(path, "w").write(s)
    print("DESIGN.md tables regenerated")


if __name__ == "__main__":
    main()
