#!/venv/bin/python
"""Confirm a seeded change (from an independent sub-agent) and run checks against it.

  tools/seed_eval.py <seed-id> <dir with patch.diff, demo.py[, notes.md]> <property> [more properties...]
      [--breaks C04] [--needs "text"] [--no-tests]

Everything happens in a scratch copy of /repo under /tmp (deleted afterwards):
  1. the pinned test suite must still pass with the patch;
  2. demo.py must exit non-zero with the patch and zero on the unchanged tree;
  3. each listed check's quick tier is run against the copy (VERIF_REPO), exit 1 = caught.
The result is stored as /verif/seeded/<seed-id>/{patch.diff, demo.py, notes.md, meta.json}."""
import argparse
import json
import os
import shutil
import subprocess
import sys
import time

VERIF = os.path.dirname(os.path.dirname(os.path.abspath(__file__)))
sys.path.insert(0, VERIF)
sys.path.insert(0, os.path.join(VERIF, "tools"))
import sensitivity as S  # noqa: E402


def main():
    ap = argparse.ArgumentParser()
    ap.add_argument("seed_id")
    ap.add_argument("src")
    ap.add_argument("props", nargs="+")
    ap.add_argument("--breaks", default=None)
    ap.add_argument("--needs", default="")
    ap.add_argument("--no-tests", action="store_true")
    ap.add_argument("--tier", default="quick")
    a = ap.parse_args()
    patch = os.path.abspath(os.path.join(a.src, "patch.diff"))
    demo = os.path.abspath(os.path.join(a.src, "demo.py"))
    dst = os.path.join(VERIF, "seeded", a.seed_id)
    os.makedirs(dst, exist_ok=True)
    meta_path = os.path.join(dst, "meta.json")
    meta = json.load(open(meta_path)) if os.path.exists(meta_path) else {}
    meta.update({"seed_id": a.seed_id, "breaks_property": a.breaks or a.props[0]})
    if a.needs:
        meta["needs_to_manifest"] = a.needs
    d = S.make_copy()
    try:
        r = subprocess.run(["patch", "-p1", "-s", "-i", patch], cwd=d, capture_output=True, text=True)
        if r.returncode:
            print("patch failed", r.stdout, r.stderr)
            return 2
        env = dict(os.environ, PYTHONPATH=d, PYTHONDONTWRITEBYTECODE="1")
        ran = meta.setdefault("what_i_ran", {})
        if not a.no_tests:
            t = subprocess.run(["/venv/bin/python", "-m", "pytest", "-q", "-p", "no:cacheprovider", "-n", "6",
                                "--timeout=900", "tests"], cwd=d, env=env, capture_output=True, text=True)
            tail = t.stdout.strip().splitlines()[-1] if t.stdout.strip() else ""
            ran["test_suite_with_patch"] = {"exit": t.returncode, "result_line": tail}
            print("tests with patch:", t.returncode, tail)
        if os.path.exists(demo):
            dm = subprocess.run(["/venv/bin/python", demo], env=env, capture_output=True, text=True, timeout=900)
            cl = subprocess.run(["/venv/bin/python", demo], env=dict(os.environ, PYTHONPATH="/repo",
                                                                      PYTHONDONTWRITEBYTECODE="1"),
                                capture_output=True, text=True, timeout=900)
            ran["demo_with_patch_exit"] = dm.returncode
            ran["demo_with_patch_tail"] = (dm.stdout + dm.stderr).strip().splitlines()[-3:]
            ran["demo_unchanged_exit"] = cl.returncode
            print("demo with patch:", dm.returncode, "unchanged:", cl.returncode)
        checks = meta.setdefault("checks", {})
        for p in a.props:
            rc, wall, lines, err = S.run_check(d, p, a.tier)
            checks[p] = {"tier": a.tier, "exit": rc, "verdict": "caught" if rc == 1 else ("harness-error" if rc == 2 else "missed"),
                         "wall_s": round(wall, 1), "first_lines": lines[:3], "at": time.strftime("%Y-%m-%dT%H:%M:%S"),
                         "verif_commit": subprocess.run(["git", "-C", VERIF, "rev-parse", "--short", "HEAD"],
                                                        capture_output=True, text=True).stdout.strip()}
            print(p, checks[p]["verdict"], f"{wall:.0f}s", (lines[:2] or [""]))
            if rc == 2:
                print(err)
    finally:
        shutil.rmtree(d, ignore_errors=True)
    shutil.copy(patch, os.path.join(dst, "patch.diff"))
    if os.path.exists(demo):
        shutil.copy(demo, os.path.join(dst, "demo.py"))
    notes = os.path.join(a.src, "notes.md")
    if os.path.exists(notes):
        shutil.copy(notes, os.path.join(dst, "notes.md"))
    with open(meta_path, "w") as fh:
        json.dump(meta, fh, indent=1, sort_keys=True)
    return 0


if __name__ == "__main__":
    sys.exit(main())
