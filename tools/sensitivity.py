#!/venv/bin/python
"""Apply deliberate breakages (mutants/catalog.py or a patch file) to a scratch copy of
/repo outside /repo and /verif, run the property's check against the copy
(VERIF_REPO), expect exit 1, and delete the copy.

  tools/sensitivity.py list
  tools/sensitivity.py run [--tests] [--tier quick] [--props C08,C14] <mutant-id>...
  tools/sensitivity.py run --all [--tests] [-j 4]
  tools/sensitivity.py patch <patch.diff> C07 [C13 ...]      (seeded changes from sub-agents)
  tools/sensitivity.py quiet [--seeds 1,2,3] [C01 ...]        (unchanged tree must be silent)
"""
import argparse
import concurrent.futures
import json
import os
import shutil
import subprocess
import sys
import tempfile
import time

VERIF = os.path.dirname(os.path.dirname(os.path.abspath(__file__)))
sys.path.insert(0, VERIF)
REPO = "/repo"


def make_copy():
    d = tempfile.mkdtemp(prefix="vfmut-", dir="/tmp")
    for name in ("py_ecc", "tests", "pyproject.toml", "setup.py", "tox.ini", "README.md"):
        src = os.path.join(REPO, name)
        if os.path.isdir(src):
            shutil.copytree(src, os.path.join(d, name),
                            ignore=shutil.ignore_patterns("__pycache__", "*.pyc"))
        elif os.path.exists(src):
            shutil.copy(src, os.path.join(d, name))
    return d


def apply_mutant(d, m):
    for ed in m["edits"]:
        p = os.path.join(d, ed["file"])
        s = open(p).read()
        cnt = s.count(ed["old"])
        want = ed.get("count", 1)
        if cnt != want:
            raise SystemExit(f"mutant {m['id']}: {ed['file']}: pattern occurs {cnt}x, expected {want}")
        s = s.replace(ed["old"], ed["new"])
        open(p, "w").write(s)


def run_tests(d):
    env = dict(os.environ, PYTHONPATH=d, PYTHONDONTWRITEBYTECODE="1")
    r = subprocess.run(
        ["/venv/bin/python", "-m", "pytest", "-q", "-x", "-p", "no:cacheprovider", "-n", "4",
         "--timeout=900", "tests"], cwd=d, env=env, capture_output=True, text=True)
    tail = r.stdout.strip().splitlines()[-1] if r.stdout.strip() else ""
    return r.returncode == 0, tail


def run_check(d, prop, tier, seed="1", nproc=None):
    env = dict(os.environ, VERIF_REPO=d, VERIF_SEED=str(seed), PYTHONDONTWRITEBYTECODE="1",
               VERIF_EVIDENCE_DIR=os.path.join(d, "_evidence"),
               VERIF_FOUND_DIR=os.path.join(d, "_found"))
    if nproc:
        env["VERIF_NPROC"] = str(nproc)
    t = time.time()
    r = subprocess.run([os.path.join(VERIF, "check"), prop, tier], env=env, capture_output=True,
                       text=True)
    lines = [l for l in r.stdout.splitlines() if l.startswith("VIOLATION") or l.startswith("  [")]
    return r.returncode, time.time() - t, lines, r.stderr[-1500:]


SEED = ["1"]


def do_one(m, props, tier, tests, nproc=None):
    d = make_copy()
    try:
        if "patch" in m:
            r = subprocess.run(["patch", "-p1", "-s", "-i", m["patch"]], cwd=d, capture_output=True,
                               text=True)
            if r.returncode:
                return {"id": m["id"], "error": "patch failed: " + r.stdout + r.stderr}
        else:
            apply_mutant(d, m)
        out = {"id": m["id"], "checks": {}}
        if tests:
            ok, tail = run_tests(d)
            out["tests_pass"] = ok
            out["tests_tail"] = tail
        for p in props:
            rc, wall, lines, err = run_check(d, p, tier, seed=SEED[0], nproc=nproc)
            out["checks"][p] = {"exit": rc, "wall": round(wall, 1), "lines": lines[:4]}
            if rc == 2:
                out["checks"][p]["stderr"] = err
        return out
    finally:
        shutil.rmtree(d, ignore_errors=True)


def main():
    ap = argparse.ArgumentParser()
    ap.add_argument("cmd", choices=["list", "run", "patch", "quiet"])
    ap.add_argument("args", nargs="*")
    ap.add_argument("--all", action="store_true")
    ap.add_argument("--tests", action="store_true")
    ap.add_argument("--tier", default="quick")
    ap.add_argument("--props", default="")
    ap.add_argument("--seeds", default="1,2,3")
    ap.add_argument("--seed", default="1", help="VERIF_SEED for run / patch")
    ap.add_argument("-j", type=int, default=1)
    a = ap.parse_intermixed_args()
    SEED[0] = a.seed

    if a.cmd == "quiet":
        from vf.props import ALL_PROPS
        props = a.args or ALL_PROPS
        bad = 0
        for seed in a.seeds.split(","):
            for p in props:
                env = dict(os.environ, VERIF_SEED=seed)
                r = subprocess.run([os.path.join(VERIF, "check"), p, a.tier], env=env,
                                   capture_output=True, text=True)
                last = r.stdout.strip().splitlines()[-1] if r.stdout.strip() else ""
                print(f"seed={seed} {p} exit={r.returncode} {last}", flush=True)
                if r.returncode:
                    bad += 1
                    print(r.stdout[-1500:], r.stderr[-1500:])
        return 1 if bad else 0

    if a.cmd == "patch":
        m = {"id": os.path.basename(a.args[0]), "patch": os.path.abspath(a.args[0])}
        res = do_one(m, a.args[1:], a.tier, a.tests)
        print(json.dumps(res, indent=1))
        return 0

    from mutants.catalog import MUTANTS
    if a.cmd == "list":
        for m in MUTANTS:
            print(f"{m['id']:40s} {','.join(m['props']):16s} {m.get('note','')}")
        return 0

    sel = MUTANTS if a.all else [m for m in MUTANTS if m["id"] in a.args]
    if a.props:
        want = set(a.props.split(","))
        sel = [m for m in sel if want & set(m["props"])] if a.all else sel
    missed = 0
    nproc = max(2, 16 // a.j) if a.j > 1 else None
    with concurrent.futures.ThreadPoolExecutor(a.j) as ex:
        futs = {}
        for m in sel:
            props = [p for p in m["props"] if not a.props or p in a.props.split(",")] or m["props"]
            futs[ex.submit(do_one, m, props, a.tier, a.tests, nproc)] = (m, props)
        for f in concurrent.futures.as_completed(futs):
            m, props = futs[f]
            res = f.result()
            if "error" in res:
                print(f"{m['id']}: ERROR {res['error']}")
                missed += 1
                continue
            t = "" if "tests_pass" not in res else f" tests={'pass' if res['tests_pass'] else 'FAIL'}"
            for p, c in res["checks"].items():
                verdict = "caught" if c["exit"] == 1 else ("HARNESS-ERROR" if c["exit"] == 2 else "MISSED")
                if m.get("expect") == "quiet":
                    verdict = "quiet-ok" if c["exit"] == 0 else "FALSE-ALARM"
                    if c["exit"] != 0:
                        missed += 1
                elif c["exit"] != 1:
                    missed += 1
                print(f"{m['id']:40s} {p} {verdict:8s} {c['wall']:6.1f}s{t} "
                      f"{(c['lines'][0] if c['lines'] else '')[:110]}", flush=True)
                if c["exit"] == 2:
                    print(c.get("stderr", ""))
    return 1 if missed else 0


if __name__ == "__main__":
    sys.exit(main())
