"""CLI:  python -m vf C07 quick|thorough      python -m vf --replay <file>"""
import os
import sys
import traceback


def main(argv):
    os.environ.setdefault("PYTHONHASHSEED", "0")
    from vf import harness

    if len(argv) >= 2 and argv[0] == "--replay":
        return harness.replay_file(argv[1])
    if not argv:
        print(__doc__)
        return 2
    prop = argv[0].upper()
    if len(argv) >= 3 and argv[1] == "--replay":
        return harness.replay_file(argv[2])
    tier = argv[1] if len(argv) > 1 else os.environ.get("VERIF_TIER", "quick")
    if tier not in ("quick", "thorough"):
        print(f"unknown tier {tier}")
        return 2
    try:
        seed = int(os.environ.get("VERIF_SEED", "1") or "1")
    except ValueError:
        seed = 1
    modname = f"vf.props.{prop.lower()}"
    try:
        return harness.run_property(prop, modname, tier, seed)
    except Exception:
        print(f"HARNESS-ERROR property={prop}\n{traceback.format_exc()}", file=sys.stderr)
        return 2


if __name__ == "__main__":
    sys.exit(main(sys.argv[1:]))
