"""atheris (libFuzzer) campaigns for the byte-level decoders, with the semantic oracles of C11 and
C04 inside the target.

    python -m vf.fuzz.run <target> --runs N --seed S --out DIR [--empty-corpus]

Writes DIR/summary.json (rewritten every few hundred executions: libFuzzer leaves the process
through exit() and Python finalisers do not run) and DIR/violation-*.json on a property violation."""
import argparse
import json
import os
import sys
import time


def main():
    ap = argparse.ArgumentParser()
    ap.add_argument("target", choices=["c11", "c04"])
    ap.add_argument("--runs", type=int, default=2000)
    ap.add_argument("--seed", type=int, default=1)
    ap.add_argument("--out", required=True)
    ap.add_argument("--empty-corpus", action="store_true")
    a = ap.parse_args()
    os.makedirs(a.out, exist_ok=True)
    corpus = os.path.join(a.out, "corpus")
    os.makedirs(corpus, exist_ok=True)

    from vf import harness
    harness.import_repo()
    import atheris
    # arithmetic is imported first, un-instrumented: it has no branch gradient worth following and
    # instrumenting it costs a factor of ten; coverage feedback is wanted on the decoders and gates
    import py_ecc.fields  # noqa
    import py_ecc.optimized_bls12_381  # noqa
    with atheris.instrument_imports(include=["py_ecc.bls"]):
        import py_ecc.bls  # noqa
        import py_ecc.bls.ciphersuites  # noqa
        import py_ecc.bls.g2_primitives  # noqa
        import py_ecc.bls.point_compression  # noqa

    from vf.harness import Ctx, Violation, in_repo_frame
    from vf.model import bls12381 as B
    prop = "C11" if a.target == "c11" else "C04"
    ctx = Ctx(prop, f"fuzz-{a.target}-{a.seed}", "thorough", a.seed)
    state = {"n": 0, "t0": time.time(), "violations": []}

    if a.target == "c11":
        from vf.props import c11

        def one(data):
            if not data:
                return
            data = data.ljust(97, b"\x00")          # short inputs are zero-extended, not discarded
            if data[0] & 1 == 0:
                c11.o_word(ctx, {"g": "G1", "z": hex(int.from_bytes(data[1:49], "big"))})
            else:
                c11.o_word(ctx, {"g": "G2", "z1": hex(int.from_bytes(data[1:49], "big")),
                                 "z2": hex(int.from_bytes(data[49:97], "big"))})
        seeds = []
        if not a.empty_corpus:
            for g in ("G1", "G2"):
                for w in c11._valid_words(g):
                    if g == "G1":
                        seeds.append(b"\x00" + w.to_bytes(48, "big"))
                    else:
                        seeds.append(b"\x01" + w[0].to_bytes(48, "big") + w[1].to_bytes(48, "big"))
    else:
        from vf.props import c04
        from vf.props import _sig_common as sc

        def one(data):
            if len(data) < 4:
                return
            fdp = atheris.FuzzedDataProvider(data)
            sel = fdp.ConsumeIntInRange(0, 255)
            suite = sc.SUITES[sel % 3]
            n = 1 + (sel >> 2) % 3
            pos = (sel >> 4) % n
            lp = fdp.ConsumeIntInRange(0, 200)
            pk = fdp.ConsumeBytes(lp)
            ls = fdp.ConsumeIntInRange(0, 200)
            sig = fdp.ConsumeBytes(ls)
            msg = fdp.ConsumeBytes(fdp.ConsumeIntInRange(0, 40))
            if sel & 0x80:          # keep one side honest so that the other is decided on its own merits
                sk, hpk, hmsg, hsig = c04.honest(suite, sel % 5)
                if sel & 0x40:
                    pk, msg = hpk, hmsg
                else:
                    sig, msg = hsig, hmsg
            c04.o_case(ctx, {"suite": suite, "pk": pk.hex(), "sig": sig.hex(), "msg": msg.hex(), "pk_mut": "fuzz",
                             "sig_mut": "fuzz", "n": n, "pos": pos})
        seeds = []
        if not a.empty_corpus:
            for i, suite in enumerate(sc.SUITES):
                sk, pk, msg, sig = c04.honest(suite, i)
                for sel in (i, 0x80 | i, 0xC0 | i):
                    seeds.append(bytes([sel, 48]) + pk + bytes([96]) + sig + bytes([len(msg)]) + msg)
                seeds.append(bytes([0x80 | i, 48]) + B.pubkey_bytes(None) + bytes([96]) + sig + b"\x00")
                seeds.append(bytes([0xC0 | i, 48]) + pk + bytes([96]) + B.signature_bytes(None) + b"\x00")

    for i, s in enumerate(seeds):
        with open(os.path.join(corpus, f"seed{i:03d}"), "wb") as fh:
            fh.write(s)

    def flush():
        r = ctx.result()
        summary = {"executions": state["n"], "evaluations": r["evaluations"], "labels": r["labels"],
                   "digests": [d.hex() for d in list(r["digests"])[:200000]], "known_hits": r["known_hits"],
                   "samples": r["samples"][:6], "violations": state["violations"],
                   "wall_s": time.time() - state["t0"], "seeds": len(seeds)}
        tmp = os.path.join(a.out, "summary.json.tmp")
        with open(tmp, "w") as fh:
            json.dump(summary, fh, default=harness.jdefault)
        os.replace(tmp, os.path.join(a.out, "summary.json"))

    hb_path, hb_every = os.path.join(a.out, "heartbeat"), (50 if a.target == "c11" else 1)

    def TestOneInput(data):
        state["n"] += 1
        if state["n"] % hb_every == 0:          # the parent's stall guard watches this file
            with open(hb_path, "w") as fh:
                fh.write(str(state["n"]))
        try:
            one(data)
        except Violation as v:
            state["violations"].append(v.as_dict())
            flush()
            raise
        except Exception as e:  # noqa
            if in_repo_frame(e.__traceback__):
                sub, case = ctx.current()
                state["violations"].append(Violation(prop, sub or "fuzz", "exception:" + type(e).__name__, case,
                                                     f"unexpected {type(e).__name__}: {e}"[:400]).as_dict())
                flush()
            raise
        if state["n"] % every == 0 or state["n"] >= a.runs - 3:
            flush()

    every = 300 if a.target == "c11" else 40
    flush()
    argv = [sys.argv[0], "-len_control=0", f"-runs={a.runs}", f"-seed={a.seed or 1}", "-max_len=512", "-print_final_stats=0",
            f"-artifact_prefix={a.out}/", corpus]
    atheris.Setup(argv, TestOneInput)
    try:
        atheris.Fuzz()
    finally:
        flush()


if __name__ == "__main__":
    main()
