"""Shared plumbing: seeding, sharding, counters, evidence, violations, replays.

Vocabulary
  case      a JSON-able dict describing one generated input (ints stay ints, bytes are
            hex strings under keys the oracle decodes itself)
  oracle    a function  oracle(ctx, case)  that runs the code under test on the case and
            calls ctx.violation(...) (or lets a py_ecc exception escape) when the
            property is broken.  Oracles are what ``--replay`` calls, without Hypothesis.
  task      one unit of work executed in a worker process: a generator loop (Hypothesis
            or exhaustive enumeration) feeding cases to oracles.
"""
from __future__ import annotations

import collections
import hashlib
import json
import multiprocessing
import os
import sys
import time
import traceback

VERIF_DIR = os.path.dirname(os.path.dirname(os.path.abspath(__file__)))
REPO = os.path.abspath(os.environ.get("VERIF_REPO", "/repo"))
MAX_SAMPLES = 12
NPROC = int(os.environ.get("VERIF_NPROC", "16"))


# --------------------------------------------------------------------------------------
# code under test
# --------------------------------------------------------------------------------------
def import_repo():
    """Put the working tree first on sys.path and make sure that is what gets imported."""
    if sys.path[0] != REPO:
        sys.path.insert(0, REPO)
    import py_ecc  # noqa

    got = os.path.dirname(os.path.abspath(py_ecc.__file__))
    want = os.path.join(REPO, "py_ecc")
    if os.path.realpath(got) != os.path.realpath(want):
        raise HarnessError(f"py_ecc imported from {got}, expected {want}")
    return py_ecc


def in_repo_frame(tb) -> bool:
    """True if the innermost frame of the traceback lies inside the code under test."""
    last = None
    while tb is not None:
        last = tb
        tb = tb.tb_next
    if last is None:
        return False
    fn = os.path.realpath(last.tb_frame.f_code.co_filename)
    return fn.startswith(os.path.realpath(os.path.join(REPO, "py_ecc")) + os.sep)


# --------------------------------------------------------------------------------------
# exceptions
# --------------------------------------------------------------------------------------
class HarnessError(Exception):
    pass


class TaskStalled(BaseException):
    """Raised by the watchdog when no oracle evaluation completed for STALL_S seconds."""


STALL_TICK = 20
STALL_S = int(os.environ.get("VERIF_STALL_S", "300"))


class Violation(Exception):
    def __init__(self, prop, sub, kind, case, message, key=None):
        super().__init__(f"{prop}/{sub}/{kind}: {message}")
        self.prop, self.sub, self.kind = prop, sub, kind
        self.case, self.message, self.key = case, message, key or {}

    def as_dict(self):
        return {
            "property": self.prop,
            "sub": self.sub,
            "kind": self.kind,
            "case": self.case,
            "message": self.message,
            "key": self.key,
        }


# --------------------------------------------------------------------------------------
# known findings
# --------------------------------------------------------------------------------------
def load_known_findings():
    path = os.path.join(VERIF_DIR, "known_findings.json")
    if not os.path.exists(path):
        return []
    with open(path) as fh:
        return json.load(fh).get("findings", [])


def match_known(findings, prop, key):
    """A finding is suppressed only by an entry with status 'known' whose match dict is a
    subset of the violation's finding key.  'fixed' entries suppress nothing."""
    for f in findings:
        if f.get("status") != "known" or f.get("property") != prop:
            continue
        m = f.get("match", {})
        if m and all(key.get(k) == v for k, v in m.items()):
            return f
    return None


# --------------------------------------------------------------------------------------
# helpers for cases
# --------------------------------------------------------------------------------------
def jdefault(o):
    if isinstance(o, (bytes, bytearray)):
        return {"__bytes__": bytes(o).hex()}
    if isinstance(o, (set, frozenset)):
        return sorted(o)
    if isinstance(o, tuple):
        return list(o)
    return repr(o)


def _abbrev(o, limit=600):
    if isinstance(o, str) and len(o) > limit:
        return o[:64] + f"...({len(o)} chars)"
    if isinstance(o, dict):
        return {k: _abbrev(v, limit) for k, v in o.items()}
    if isinstance(o, (list, tuple)):
        return [_abbrev(v, limit) for v in o]
    return o


def canon(obj) -> str:
    return json.dumps(obj, sort_keys=True, default=jdefault, separators=(",", ":"))


def digest(obj) -> bytes:
    return hashlib.sha256(canon(obj).encode()).digest()[:8]


def hx(b: bytes) -> str:
    return bytes(b).hex()


def unhx(s: str) -> bytes:
    return bytes.fromhex(s)


def derive_seed(*parts) -> int:
    h = hashlib.sha256("|".join(str(p) for p in parts).encode()).digest()
    return int.from_bytes(h[:8], "big")


# --------------------------------------------------------------------------------------
# per-task context
# --------------------------------------------------------------------------------------
class Ctx:
    def __init__(self, prop, task, tier, seed, findings=None):
        self.prop, self.task, self.tier, self.seed = prop, task, tier, seed
        self.findings = load_known_findings() if findings is None else findings
        self.evaluations = 0
        self.heartbeat = 0
        self.labels = collections.Counter()
        self.digests = set()
        self.exhaustive_nontrivial = 0
        self.samples = []
        self.sample_tags = set()
        self.violations = []
        self.known_hits = collections.Counter()
        self.exhaustive = []
        self.notes = []
        self.case = None  # last case handed to an oracle (for exception attribution)
        self.sub = None
        self.lazy = None  # optional zero-argument callable building (sub, case) on demand

    def current(self):
        if self.lazy is not None:
            try:
                return self.lazy()
            except Exception:  # noqa
                pass
        return self.sub, self.case

    # -- counting -------------------------------------------------------------------
    def ev(self, n=1):
        self.evaluations += n

    def label(self, name, n=1):
        self.labels[name] += n

    def nontrivial(self, key):
        self.digests.add(digest(key))

    def nontrivial_bulk(self, n):
        """Cases distinct by construction (exhaustive enumeration)."""
        self.exhaustive_nontrivial += n

    def sample(self, case, tag=None):
        """Keep the first case of every tag, then fill up.  Very long strings (hex of 64 KiB messages)
        are abbreviated in the SAMPLE only; replay files always carry the full case."""
        case = _abbrev(case)
        if tag is not None:
            if tag in self.sample_tags:
                return
            self.sample_tags.add(tag)
            if len(self.samples) < MAX_SAMPLES * 3:
                self.samples.append({"tag": tag, "case": case})
        elif len(self.samples) < MAX_SAMPLES:
            self.samples.append({"case": case})

    def subspace(self, name, size, complete=True):
        self.exhaustive.append({"name": name, "size": size, "complete": complete})

    def note(self, s):
        self.notes.append(s)

    def seed_for(self, *parts):
        return derive_seed(self.seed, self.prop, self.task, *parts)

    # -- oracles ----------------------------------------------------------------------
    def begin(self, sub, case):
        self.sub, self.case = sub, case
        self.lazy = None
        self.evaluations += 1

    def violation(self, sub, kind, case, message, key=None):
        """Report a property violation.  Returns normally iff it is a listed known
        finding (so the search continues behind it)."""
        k = dict(key or {})
        k.setdefault("sub", sub)
        k.setdefault("kind", kind)
        f = match_known(self.findings, self.prop, k)
        if f is not None:
            self.known_hits[f.get("id", "?")] += 1
            return
        raise Violation(self.prop, sub, kind, case, message, k)

    def check(self, cond, sub, kind, case, message, key=None):
        if not cond:
            self.violation(sub, kind, case, message, key)

    # -- result -------------------------------------------------------------------------
    def result(self):
        return {
            "task": self.task,
            "evaluations": self.evaluations,
            "labels": dict(self.labels),
            "digests": self.digests,
            "exhaustive_nontrivial": self.exhaustive_nontrivial,
            "samples": self.samples,
            "violations": self.violations,
            "known_hits": dict(self.known_hits),
            "exhaustive": self.exhaustive,
            "notes": self.notes,
        }


# --------------------------------------------------------------------------------------
# Hypothesis driver
# --------------------------------------------------------------------------------------
_span_mutation_off = [False]


def _no_span_mutation():
    """Hypothesis follows every novel example with 'mutations' that copy spans of it.  For the
    composite cases used here (tuples of scalars, messages, arms) that makes a third to two
    thirds of all generated cases near-duplicates of their predecessor (measured: 72 distinct
    secret keys in 300 cases; 275 with the step disabled), which wastes the case budget of the
    expensive oracles.  The step is an internal of the pinned hypothesis 6.168 engine; if the
    attribute is absent nothing is changed."""
    if _span_mutation_off[0]:
        return
    _span_mutation_off[0] = True
    try:
        from hypothesis.internal.conjecture import engine
        if hasattr(engine.ConjectureRunner, "generate_mutations_from"):
            engine.ConjectureRunner.generate_mutations_from = lambda self, data: None
    except Exception:  # noqa
        pass


REVISIT_EVERY = int(os.environ.get("VERIF_REVISIT", "6"))


def drive(ctx, name, strategy, body, max_examples, examples=(), shrink=True, revisit=None):
    """Run body(case) on the explicit examples (plain calls, every seed) and then on
    max_examples Hypothesis-generated cases with a seed derived from VERIF_SEED.

    Every `revisit`-th case is followed by a re-evaluation of the case that ran seven cases
    earlier in the same process: oracles are pure, so the verdict must be the same; a library
    that answers differently the second time (a cache poisoned in between, state left behind by
    another call) is caught here even when each case on its own is handled correctly."""
    import hypothesis
    from hypothesis import HealthCheck, Phase, given, settings

    revisit = REVISIT_EVERY if revisit is None else revisit
    ring = collections.deque(maxlen=8)
    count = [0]

    first = []          # the first violation raised in this drive (see the except clause around run())

    def guarded(case):
        """body(case); an exception whose innermost frame is inside the code under test is library
        behaviour on this input and becomes a violation here (unless it is a listed known finding)."""
        try:
            body(case)
        except Violation as v:
            if not first:
                first.append(v)
            raise
        except HarnessError:
            raise
        except Exception as e:  # noqa
            if not in_repo_frame(e.__traceback__):
                raise
            sub, cs = ctx.current()
            kind = "exception:" + type(e).__name__
            k = {"sub": sub, "kind": kind}
            f = match_known(ctx.findings, ctx.prop, k)
            if f is not None:
                ctx.known_hits[f.get("id", "?")] += 1
                return
            v = Violation(ctx.prop, sub or name, kind, cs if cs is not None else case,
                          f"unexpected {type(e).__name__}: {e}"[:500], k)
            if not first:
                first.append(v)
            raise v from None

    def wrapped(case):
        guarded(case)
        ring.append(case)
        count[0] += 1
        if revisit and count[0] % revisit == 0 and len(ring) >= 4:
            old = ring[0]
            try:
                guarded(old)
            except Violation as v:
                v2 = Violation(v.prop, v.sub, v.kind + ":on_revisit", v.case,
                               "[only when the case is evaluated again after %d other cases in the same process] %s"
                               % (len(ring) - 1, v.message), dict(v.key, kind=v.kind + ":on_revisit"))
                first[:] = [v2]
                raise v2 from None
            ctx.label("revisited_cases")

    for ex in examples:
        wrapped(ex)
    if max_examples <= 0:
        return
    _no_span_mutation()
    phases = [Phase.generate] + ([Phase.shrink] if shrink else [])

    @hypothesis.seed(ctx.seed_for(name))
    @settings(
        max_examples=max_examples,
        database=None,
        deadline=None,
        derandomize=False,
        report_multiple_bugs=False,
        phases=phases,
        verbosity=hypothesis.Verbosity.quiet,
        suppress_health_check=[HealthCheck.too_slow, HealthCheck.data_too_large,
                               HealthCheck.large_base_example],
    )
    @given(strategy)
    def run(case):
        wrapped(case)

    try:
        run()
    except Violation:
        raise
    except BaseException:  # noqa
        # Hypothesis re-executes a failing example; a library whose answer depends on what ran before
        # may then behave differently and Hypothesis reports the test as flaky.  The violation that was
        # observed is the finding; the flakiness is its symptom.
        if first:
            raise first[0] from None
        raise


# --------------------------------------------------------------------------------------
# task execution (worker side)
# --------------------------------------------------------------------------------------
def _install_watchdog(ctx):
    import signal
    state = {"last": -1, "stalled": 0}

    def tick(signum, frame):
        beat = ctx.evaluations + getattr(ctx, "heartbeat", 0)
        if beat != state["last"]:
            state["last"], state["stalled"] = beat, 0
            return
        state["stalled"] += STALL_TICK
        if state["stalled"] >= STALL_S:
            state["stalled"] = 0
            raise TaskStalled()

    signal.signal(signal.SIGALRM, tick)
    signal.setitimer(signal.ITIMER_REAL, STALL_TICK, STALL_TICK)
    return state


def _record_exception(ctx, prop, task_name, e):
    """An exception whose innermost frame is inside py_ecc is library behaviour on a
    generated input; anything else is a harness error (re-raised)."""
    sub, case = ctx.current()
    if in_repo_frame(e.__traceback__) and case is not None:
        kind = "exception:" + type(e).__name__
        k = {"sub": sub, "kind": kind}
        f = match_known(ctx.findings, prop, k)
        if f is not None:
            ctx.known_hits[f.get("id", "?")] += 1
        else:
            ctx.violations.append(
                Violation(prop, sub or task_name, kind, case,
                          f"unexpected {type(e).__name__}: {e}"[:500], k).as_dict())
        return True
    return False


def _run_task(args):
    prop, modname, task_name, fn_name, kwargs, tier, seed = args
    t0 = time.time()
    os.environ["PYTHONHASHSEED"] = "0"
    ctx = Ctx(prop, task_name, tier, seed)
    status, err = "ok", None
    try:
        import_repo()
        mod = __import__(modname, fromlist=["x"])
        fn = getattr(mod, fn_name)
        _install_watchdog(ctx)
        try:
            fn(ctx, **kwargs)
        except Violation as v:
            ctx.violations.append(v.as_dict())
        except HarnessError:
            raise
        except TaskStalled:
            # No evaluation finished for STALL_S seconds.  Re-run the case that was in flight on
            # its own: if it stalls again it is non-termination of the code under test on a
            # concrete input (a violation); otherwise the task was merely slow (inconclusive).
            sub, case = ctx.current()
            if case is None:
                raise HarnessError(f"task stalled for {STALL_S}s with no case in flight")
            ctx2 = Ctx(prop, task_name, tier, seed, ctx.findings)
            _install_watchdog(ctx2)
            try:
                replay_case(ctx2, mod, {"sub": sub, "case": case})
                # the machine is merely slow (overloaded): the rest of this task is not explored, which
                # is recorded, but it is neither a violation nor a defect of the harness
                ctx.notes.append(f"task {task_name}: no evaluation finished within {STALL_S}s although the case in "
                                 "flight completes on its own (overloaded machine); remainder of the task inconclusive")
                ctx.label("tasks_cut_short_by_the_stall_guard")
            except TaskStalled:
                ctx.violations.append(Violation(
                    prop, sub or task_name, "hang", case,
                    f"the library did not return within {STALL_S}s on this single case "
                    f"(twice; normal cost is seconds at most)", {"sub": sub, "kind": "hang"}).as_dict())
            except Violation as v:
                ctx.violations.append(v.as_dict())
        except BaseException as e:  # noqa
            if isinstance(e, (KeyboardInterrupt, SystemExit)):
                raise
            if not _record_exception(ctx, prop, task_name, e):
                raise
    except BaseException as e:  # noqa
        status = "harness_error"
        err = "".join(traceback.format_exception(type(e), e, e.__traceback__))[-4000:]
    finally:
        try:
            import signal
            signal.setitimer(signal.ITIMER_REAL, 0)
        except Exception:  # noqa
            pass
    r = ctx.result()
    r["status"], r["error"], r["wall_s"] = status, err, time.time() - t0
    return r


def kwcall(fn, *values):
    """A thunk calling fn(name0=values[0], name1=values[1], ...) with the parameter names read from the function's own
    signature (a renamed parameter is followed); None if the signature has no named positional parameters
    (a *args wrapper, a C function)."""
    import inspect
    try:
        ps = [p for p in inspect.signature(fn).parameters.values()
              if p.kind in (p.POSITIONAL_OR_KEYWORD, p.KEYWORD_ONLY)]
    except (TypeError, ValueError):
        return None
    if len(ps) < len(values):
        return None
    return lambda: fn(**{p.name: v for p, v in zip(ps, values)})


def same_by_name(ctx, sub, case, fn, args, positional_result, what):
    """The calling convention is not an input: fn(*args) and fn(**names) must agree (value or exception type)."""
    k = kwcall(fn, *args)
    if k is None:
        return
    try:
        got = k()
    except Exception as e:  # noqa
        got = ("raised", type(e).__name__)
    if isinstance(positional_result, BaseException):
        positional_result = ("raised", type(positional_result).__name__)
    if isinstance(got, (bytearray, list)):
        got = type(positional_result)(got) if isinstance(positional_result, (bytes, tuple)) else got
    ctx.check(got == positional_result, sub, "keyword_call", case,
              f"{what} with its arguments passed by name gives {str(got)[:120]}, positionally {str(positional_result)[:120]}")
    ctx.label("keyword_arguments")


class Task:
    def __init__(self, name, fn, **kwargs):
        self.name, self.fn, self.kwargs = name, fn, kwargs


# --------------------------------------------------------------------------------------
# parent side
# --------------------------------------------------------------------------------------
def run_property(prop, modname, tier, seed):
    t0 = time.time()
    import_repo()
    mod = __import__(modname, fromlist=["x"])
    findings = load_known_findings()
    tasks = mod.tasks(tier)
    smoke = float(os.environ.get("VERIF_SMOKE", "0") or 0)
    if smoke:
        # development aid, not a registered tier: every task of the tier at a fraction of its case count, to
        # exercise the thorough-only code paths end to end in minutes (REQUIRED_LABELS are not meaningful then)
        for t in tasks:
            for k in ("n", "nb", "na", "nn", "histories", "runs"):
                if isinstance(t.kwargs.get(k), int):
                    t.kwargs[k] = max(1, int(t.kwargs[k] * smoke))
    jobs = [(prop, modname, t.name, t.fn, t.kwargs, tier, seed) for t in tasks]

    results = []
    # regression replays first (in-process, seconds)
    reg = run_regressions(prop, mod, findings)
    results.append(reg)

    mpctx = multiprocessing.get_context("fork")
    with mpctx.Pool(min(NPROC, max(1, len(jobs))), maxtasksperchild=1) as pool:
        for r in pool.imap_unordered(_run_task, jobs, chunksize=1):
            results.append(r)
            if r["status"] != "ok":
                print(f"HARNESS-ERROR property={prop} task={r['task']}\n{r['error']}",
                      file=sys.stderr, flush=True)

    return finish(prop, mod, tier, seed, results, findings, time.time() - t0)


def run_regressions(prop, mod, findings):
    ctx = Ctx(prop, "regress", "quick", 0, findings)
    d = os.path.join(VERIF_DIR, "replays", "regress")
    status, err = "ok", None
    n = 0
    try:
        for fn in sorted(os.listdir(d)) if os.path.isdir(d) else []:
            if not fn.startswith(prop + "-") or not fn.endswith(".json"):
                continue
            with open(os.path.join(d, fn)) as fh:
                rep = json.load(fh)
            n += 1
            try:
                replay_case(ctx, mod, rep)
            except Violation as v:
                ctx.violations.append(v.as_dict())
        ctx.label("regress:files", n)
    except BaseException as e:  # noqa
        status = "harness_error"
        err = "".join(traceback.format_exception(type(e), e, e.__traceback__))[-4000:]
        print(f"HARNESS-ERROR property={prop} task=regress\n{err}", file=sys.stderr)
    r = ctx.result()
    r["status"], r["error"], r["wall_s"] = status, err, 0.0
    return r


def replay_case(ctx, mod, rep):
    sub = rep["sub"]
    oracle = mod.ORACLES.get(sub)
    if oracle is None:
        raise HarnessError(f"no oracle {sub!r} in {mod.__name__}")
    ctx.sub, ctx.case = sub, rep["case"]
    try:
        oracle(ctx, rep["case"])
    except Violation:
        raise
    except Exception as e:
        if in_repo_frame(e.__traceback__):
            kind = "exception:" + type(e).__name__
            ctx.violation(sub, kind, rep["case"], f"unexpected {type(e).__name__}: {e}"[:500])
        else:
            raise


def finish(prop, mod, tier, seed, results, findings, wall):
    evaluations = sum(r["evaluations"] for r in results)
    digests = set()
    labels = collections.Counter()
    samples, violations, exhaustive, notes = [], [], [], []
    known_hits = collections.Counter()
    exn = 0
    harness_errors = [r for r in results if r["status"] != "ok"]
    per_task = {}
    for r in sorted(results, key=lambda r: r["task"]):
        digests |= r["digests"]
        labels.update(r["labels"])
        exn += r["exhaustive_nontrivial"]
        violations += r["violations"]
        known_hits.update(r["known_hits"])
        exhaustive += r["exhaustive"]
        notes += r["notes"]
        per_task[r["task"]] = {"evaluations": r["evaluations"], "wall_s": round(r["wall_s"], 2)}
    # samples: round-robin over tasks so that every sub-check is represented
    pools = [list(r["samples"]) for r in sorted(results, key=lambda r: r["task"]) if r["samples"]]
    while pools and len(samples) < MAX_SAMPLES:
        for p in list(pools):
            if p and len(samples) < MAX_SAMPLES:
                samples.append(p.pop(0))
            if not p:
                pools.remove(p)

    # bucket violations by (sub, kind): one root cause, one line
    buckets = {}
    for v in violations:
        buckets.setdefault((v["sub"], v["kind"]), v)
    out_lines = []
    found_dir = os.environ.get("VERIF_FOUND_DIR") or os.path.join(VERIF_DIR, "replays", "found")
    for (sub, kind), v in sorted(buckets.items()):
        os.makedirs(found_dir, exist_ok=True)
        dg = hashlib.sha256(canon(v["case"]).encode()).hexdigest()[:12]
        safe = "".join(c if c.isalnum() or c in "-_" else "_" for c in f"{sub}-{kind}")[:80]
        path = os.path.join(found_dir, f"{prop}-{safe}-{dg}.json")
        with open(path, "w") as fh:
            json.dump(v, fh, indent=1, default=jdefault, sort_keys=True)
        out_lines.append(f"VIOLATION property={prop} replay={path}")
        print(f"  [{sub}/{kind}] {v['message'][:300]}", flush=True)

    for f in findings:
        if f.get("status") == "known" and f.get("property") == prop:
            n = known_hits.get(f.get("id", "?"), 0)
            print(f"KNOWN-FINDING: property={prop} {f.get('what', '')} (seen {n}x this run)")

    distinct = len(digests) + exn
    evidence = {
        "property_id": prop,
        "tier": tier,
        "seed": int(seed),
        "level": "exploration",
        "coverage": {
            "evaluations": int(evaluations),
            "distinct_nontrivial": int(distinct),
            "rule": getattr(mod, "RULE", ""),
            "samples": samples,
            "classes": dict(sorted(labels.items())),
            "exhaustive_subspaces": exhaustive,
            "exhaustive": False,
            "excluded_known_findings": dict(known_hits),
            "per_task": per_task,
            "notes": sorted(set(notes)),
            "harness_errors": len(harness_errors),
            "engine": getattr(mod, "ENGINE", "hypothesis + exhaustive enumeration"),
        },
        "assumptions": getattr(mod, "ASSUMPTIONS", []),
        "wall_s": round(wall, 2),
        "violations": len(buckets),
    }
    evdir = os.environ.get("VERIF_EVIDENCE_DIR") or os.path.join(VERIF_DIR, "evidence")
    os.makedirs(evdir, exist_ok=True)
    with open(os.path.join(evdir, f"{prop}.json"), "w") as fh:
        json.dump(evidence, fh, indent=1, default=jdefault, sort_keys=True)

    for line in out_lines:
        print(line, flush=True)
    print(f"{prop} {tier} seed={seed}: evaluations={evaluations} distinct_nontrivial={distinct} "
          f"violations={len(buckets)} harness_errors={len(harness_errors)} wall={wall:.1f}s",
          flush=True)
    # sanity of the generators themselves: required label classes must be populated
    missing = [l for l in getattr(mod, "REQUIRED_LABELS", {}).get(tier, [])
               if labels.get(l, 0) == 0]
    # a sub-check that found its own premise violated (and said so in a note) waives the labels it would have produced
    waived = [l[len("required_waived:"):] for l in labels if l.startswith("required_waived:")]
    missing = [l for l in missing if not any(l.startswith(w) for w in waived)]
    if missing and not harness_errors and not buckets and not labels.get("tasks_cut_short_by_the_stall_guard") \
            and not os.environ.get("VERIF_SMOKE"):
        print(f"HARNESS-ERROR property={prop} generator never produced: {missing}",
              file=sys.stderr)
        return 2
    if buckets:
        return 1
    if harness_errors:
        return 2
    return 0


def replay_file(path):
    with open(path) as fh:
        rep = json.load(fh)
    prop = rep["property"]
    import_repo()
    mod = __import__(f"vf.props.{prop.lower()}", fromlist=["x"])
    ctx = Ctx(prop, "replay", "quick", 0)
    try:
        if ":python_-" in str(rep.get("kind", "")):
            # found in an interpreter started with a flag (-O, -bb): replay it there
            run_cases_optimized(ctx, prop, [{"sub": rep["sub"], "case": rep["case"]}],
                                flag="-" + str(rep["kind"]).rsplit(":python_-", 1)[1])
            if ctx.violations:
                v0 = ctx.violations[0]
                raise Violation(prop, v0["sub"], v0["kind"], v0["case"], v0["message"], v0.get("key"))
        else:
            replay_case(ctx, mod, rep)
    except Violation as v:
        print(f"  [{v.sub}/{v.kind}] {v.message[:400]}")
        print(f"VIOLATION property={prop} replay={os.path.abspath(path)}")
        return 1
    for fid, n in ctx.known_hits.items():
        print(f"KNOWN-FINDING: property={prop} {fid}")
    print(f"replay {path}: property holds on this case")
    return 0


# --------------------------------------------------------------------------------------
# the same oracle cases in an interpreter started with -O
# --------------------------------------------------------------------------------------
def run_cases_optimized(ctx, prop, jobs, flag="-O"):
    """jobs: [{"sub", "case"}].  Evaluates them with `python <flag> -m vf.optrun` (-O: asserts stripped; -bb: comparing
    bytes with str is an error) and merges the violations, their kind suffixed with ':python_<flag>'.  Results must not depend on the interpreter's optimisation
    flag: a library that validates with `assert` silently stops validating there."""
    import subprocess
    import tempfile
    with tempfile.NamedTemporaryFile("w", suffix=".json", delete=False, dir="/tmp") as fh:
        json.dump(jobs, fh, default=jdefault)
        path = fh.name
    try:
        env = dict(os.environ, PYTHONHASHSEED="0", PYTHONDONTWRITEBYTECODE="1",
                   PYTHONPATH=VERIF_DIR + os.pathsep + os.environ.get("PYTHONPATH", ""))
        env.pop("PYTHONOPTIMIZE", None)
        r = subprocess.run([sys.executable, flag, "-m", "vf.optrun", prop, path], cwd=VERIF_DIR, env=env,
                           capture_output=True, text=True)
        if r.returncode != 0:
            raise HarnessError(f"python {flag} runner failed: {r.stderr[-1500:]}")
        res = json.loads(r.stdout.strip().splitlines()[-1])
        if flag == "-O" and res.get("optimize", 0) < 1:
            raise HarnessError("python -O runner did not run optimised")
    finally:
        os.unlink(path)
    ctx.ev(int(res["evaluations"]))
    ctx.label(f"python_{flag}:cases", len(jobs))
    for v in res["violations"]:
        v = dict(v)
        v["kind"] = v["kind"] + f":python_{flag}"
        v["message"] = f"in an interpreter started with {flag}: " + v["message"]
        if isinstance(v.get("key"), dict) and "kind" in v["key"]:
            v["key"] = dict(v["key"], kind=v["kind"])
        ctx.violations.append(v)


# --------------------------------------------------------------------------------------
# atheris campaigns (thorough tier): run in a subprocess, merge its summary into the task
# --------------------------------------------------------------------------------------
def run_fuzz_campaign(ctx, target, runs, seed, empty_corpus=False):
    import shutil
    import subprocess
    import tempfile
    deps = os.path.join(VERIF_DIR, ".deps")
    try:
        sys.path.insert(0, deps)
        import atheris  # noqa
    except Exception:  # noqa
        ctx.note("atheris not importable: fuzz campaign skipped (install it with MANIFEST.setup_cmd)")
        ctx.label("fuzz:skipped")
        return
    finally:
        if deps in sys.path:
            sys.path.remove(deps)
    out = tempfile.mkdtemp(prefix="vffuzz-", dir="/tmp")
    try:
        env = dict(os.environ, PYTHONHASHSEED="0", PYTHONDONTWRITEBYTECODE="1",
                   PYTHONPATH=deps + os.pathsep + VERIF_DIR + os.pathsep + os.environ.get("PYTHONPATH", ""))
        cmd = [sys.executable, "-m", "vf.fuzz.run", target, "--runs", str(runs), "--seed", str(seed % (2 ** 31) or 1),
               "--out", out] + (["--empty-corpus"] if empty_corpus else [])
        # the campaign runs for minutes in a child process: poll it, and let its heartbeat file feed this task's
        # stall guard (which only sees oracle evaluations made in this process)
        errf = open(os.path.join(out, "stderr.txt"), "w+")
        child = subprocess.Popen(cmd, cwd=VERIF_DIR, env=env, stdout=subprocess.DEVNULL, stderr=errf, text=True)
        hb, last, last_t, killed = os.path.join(out, "heartbeat"), None, time.time(), False
        while child.poll() is None:
            time.sleep(1.0)
            try:
                with open(hb) as fh:
                    cur = fh.read()
            except OSError:
                cur = None
            if cur != last:
                last, last_t = cur, time.time()
                ctx.heartbeat += 1
            elif time.time() - last_t > 2 * STALL_S:
                child.kill()
                killed = True
            elif time.time() - last_t < STALL_S / 2:
                ctx.heartbeat += 1            # start-up (imports, corpus) and single slow executions
        child.wait()
        errf.seek(0)
        stderr_tail = errf.read()[-1500:]
        errf.close()

        class _R:
            returncode = child.returncode
            stderr = stderr_tail
        r = _R()
        path = os.path.join(out, "summary.json")
        if killed:
            ctx.note(f"fuzz campaign {target}: no execution finished for {2 * STALL_S}s; campaign stopped (inconclusive)")
            ctx.label("fuzz:stopped_by_the_stall_guard")
        if not os.path.exists(path):
            raise HarnessError(f"fuzz campaign produced no summary: {r.stderr[-1500:]}")
        with open(path) as fh:
            s = json.load(fh)
        ctx.ev(int(s["evaluations"]))
        for k, v in s["labels"].items():
            ctx.label(k, v)
        ctx.label(f"fuzz:{target}:executions", int(s["executions"]))
        ctx.label(f"fuzz:{target}:{'empty' if empty_corpus else 'seeded'}_corpus_campaigns")
        for d in s["digests"]:
            ctx.digests.add(bytes.fromhex(d))
        for k, v in s.get("known_hits", {}).items():
            ctx.known_hits[k] += v
        for smp in s.get("samples", [])[:2]:
            ctx.samples.append({"tag": "atheris", "case": smp.get("case")})
        for v in s["violations"]:
            ctx.violations.append(v)
        if r.returncode != 0 and not s["violations"] and not killed:
            raise HarnessError(f"fuzz process exited {r.returncode} without a recorded violation: {r.stderr[-1500:]}")
    finally:
        shutil.rmtree(out, ignore_errors=True)
