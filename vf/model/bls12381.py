"""BLS12-381 specifics on top of curves.BLS: ZCash point (de)compression written from the
format description, the psi endomorphism, cofactor clearing, subgroup membership.

Points are None (identity) or affine pairs; G1 coordinates are ints, G2 coordinates are
(re, im) pairs."""
from . import ec, nt
from .curves import BLS
from .params import BLS_H1, BLS_H2, BLS_HEFF1, BLS_HEFF2, BLS_P, BLS_R, BLS_X

P = BLS_P
R = BLS_R
F1, F2 = BLS.F1, BLS.F2
B1, B2 = BLS.b, BLS.b2
G1, G2 = BLS.G1, BLS.G2
HALF = (P - 1) // 2

C_BIT, B_BIT, A_BIT = 1 << 383, 1 << 382, 1 << 381
MASK381 = A_BIT - 1


class Reject(Exception):
    """The model decoder refuses the word; .reason is a short tag."""

    def __init__(self, reason):
        super().__init__(reason)
        self.reason = reason


# ---- "lexicographically larger" ---------------------------------------------------------
def sign_fp(y):
    return 1 if y % P > HALF else 0


def sign_fp2(y):
    """ZCash ordering of Fp2: compare the i-coefficient first, then the real one."""
    re, im = y[0] % P, y[1] % P
    if im != 0:
        return 1 if im > HALF else 0
    return 1 if re > HALF else 0


# ---- G1 -----------------------------------------------------------------------------------
def compress_g1(pt):
    if pt is None:
        return C_BIT | B_BIT
    x, y = pt
    return C_BIT | (A_BIT if sign_fp(y) else 0) | (x % P)


def decompress_g1(z):
    if not 0 <= z < (1 << 384):
        raise Reject("range")
    c, b, a = bool(z & C_BIT), bool(z & B_BIT), bool(z & A_BIT)
    x = z & MASK381
    if not c:
        raise Reject("c_flag")
    if b:
        if a:
            raise Reject("inf_a_flag")
        if x != 0:
            raise Reject("inf_x_nonzero")
        return None
    if x >= P:
        raise Reject("x>=p")
    y = nt.sqrt_mod((x * x * x + B1) % P, P)
    if y is None:
        raise Reject("not_on_curve")
    if sign_fp(y) != int(a):
        y = (-y) % P
    if sign_fp(y) != int(a):      # y == 0 cannot carry a_flag = 1 (no such point: 4 is not -x^3)
        raise Reject("sign_of_zero")
    return (x, y)


def pubkey_bytes(pt):
    return compress_g1(pt).to_bytes(48, "big")


def pubkey_point(b):
    if len(b) != 48:
        raise Reject("length")
    return decompress_g1(int.from_bytes(b, "big"))


# ---- G2 -----------------------------------------------------------------------------------
def compress_g2(pt):
    if pt is None:
        return (C_BIT | B_BIT, 0)
    x, y = pt
    return (C_BIT | (A_BIT if sign_fp2(y) else 0) | (x[1] % P), x[0] % P)


def decompress_g2(z1, z2):
    if not (0 <= z1 < (1 << 384) and 0 <= z2 < (1 << 384)):
        raise Reject("range")
    c, b, a = bool(z1 & C_BIT), bool(z1 & B_BIT), bool(z1 & A_BIT)
    x1 = z1 & MASK381
    if not c:
        raise Reject("c_flag")
    if z2 >> 381:
        raise Reject("flags_in_second_word")
    if b:
        if a:
            raise Reject("inf_a_flag")
        if x1 != 0 or z2 != 0:
            raise Reject("inf_x_nonzero")
        return None
    if x1 >= P:
        raise Reject("x1>=p")
    if z2 >= P:
        raise Reject("x0>=p")
    x = (z2, x1)
    rhs = F2.add(F2.mul(F2.mul(x, x), x), B2)
    y = BLS.fp2_sqrt(rhs)
    if y is None:
        raise Reject("not_on_curve")
    if sign_fp2(y) != int(a):
        y = F2.neg(y)
    if sign_fp2(y) != int(a):
        raise Reject("sign_of_zero")
    return (x, y)


def signature_bytes(pt):
    z1, z2 = compress_g2(pt)
    return z1.to_bytes(48, "big") + z2.to_bytes(48, "big")


def signature_point(b):
    if len(b) != 96:
        raise Reject("length")
    return decompress_g2(int.from_bytes(b[:48], "big"), int.from_bytes(b[48:], "big"))


# ---- group helpers ------------------------------------------------------------------------
def g1_mul(pt, n):
    return ec.mul(F1, pt, n)


def g2_mul(pt, n):
    return ec.mul(F2, pt, n)


def g1_add(a, b):
    return ec.add(F1, a, b)


def g2_add(a, b):
    return ec.add(F2, a, b)


def g1_on_curve(pt):
    return ec.on_curve(F1, pt, B1)


def g2_on_curve(pt):
    return ec.on_curve(F2, pt, B2)


def g1_in_subgroup(pt):
    return g1_mul(pt, R) is None


def g2_in_subgroup(pt):
    return g2_mul(pt, R) is None


def valid_pubkey(b):
    """KeyValidate of the IETF draft, on bytes: canonical 48-byte encoding of a non-identity
    point of the order-r subgroup of E1."""
    try:
        pt = pubkey_point(bytes(b))
    except Reject:
        return False
    return pt is not None and g1_in_subgroup(pt)


def valid_signature(b):
    try:
        pt = signature_point(bytes(b))
    except Reject:
        return False
    return g2_in_subgroup(pt)


# ---- psi endomorphism and Budroni-Pintore cofactor clearing --------------------------------
_XI = (1, 1)
PSI_CX = F2.inv(F2.pow(_XI, (P - 1) // 3))
PSI_CY = F2.inv(F2.pow(_XI, (P - 1) // 2))


def conj(a):
    return (a[0] % P, (-a[1]) % P)


def psi(pt):
    if pt is None:
        return None
    return (F2.mul(PSI_CX, conj(pt[0])), F2.mul(PSI_CY, conj(pt[1])))


def clear_cofactor_g2_psi(pt):
    """[x^2 - x - 1] P + [x - 1] psi(P) + psi^2(2P)   (RFC 9380 appendix G.3)."""
    x = BLS_X
    t1 = g2_mul(pt, x * x - x - 1)
    t2 = g2_mul(psi(pt), x - 1)
    t3 = psi(psi(g2_add(pt, pt)))
    return g2_add(g2_add(t1, t2), t3)


def clear_cofactor_g2(pt):
    return g2_mul(pt, BLS_HEFF2)


def clear_cofactor_g1(pt):
    return g1_mul(pt, BLS_HEFF1)


# ---- constructed special points --------------------------------------------------------------
def small_order_point(g, ell, seed=1):
    """A point of exact prime order ell (ell | cofactor) on E1 ('G1') or E2 ('G2'), or None if
    the seed's random point has no ell-component (try another seed)."""
    n = (BLS_H1 if g == "G1" else BLS_H2) * R
    assert n % ell == 0
    m = n
    while m % ell == 0:
        m //= ell
    Q = BLS.mul(g, BLS.point_from_seed(g, seed), m)     # order a power of ell
    if Q is None:
        return None
    while True:
        Q2 = BLS.mul(g, Q, ell)
        if Q2 is None:
            return Q
        Q = Q2


def selfcheck():
    assert pubkey_bytes(G1).hex().startswith("97f1d3a73197d794") and pubkey_bytes(G1).hex().endswith("c6bb")
    sb = signature_bytes(G2).hex()
    assert sb.startswith("93e02b6052719f60") and sb.endswith("bdb8"), sb
    assert pubkey_point(pubkey_bytes(G1)) == G1 and signature_point(signature_bytes(G2)) == G2
    assert decompress_g1(compress_g1(None)) is None and decompress_g2(*compress_g2(None)) is None
    # psi is an endomorphism of E2 acting as multiplication by p on G2, and the
    # endomorphism-based clearing equals multiplication by h_eff
    Q = BLS.point_from_seed("G2", 11)
    assert g2_on_curve(psi(Q))
    assert psi(G2) == g2_mul(G2, P % R)
    assert clear_cofactor_g2_psi(Q) == clear_cofactor_g2(Q)
    assert g2_in_subgroup(clear_cofactor_g2(Q)) and not g2_in_subgroup(Q)
    assert (0, 2) == decompress_g1(C_BIT) and g1_on_curve((0, 2))
    return True
