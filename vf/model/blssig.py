"""draft-irtf-cfrg-bls-signature-04, minimal-pubkey-size suites on BLS12-381, on the models."""
from . import bls12381 as B
from . import h2c
from .params import BLS_R

DST = {
    "basic": b"BLS_SIG_BLS12381G2_XMD:SHA-256_SSWU_RO_NUL_",
    "aug": b"BLS_SIG_BLS12381G2_XMD:SHA-256_SSWU_RO_AUG_",
    "pop": b"BLS_SIG_BLS12381G2_XMD:SHA-256_SSWU_RO_POP_",
}
POP_TAG = b"BLS_POP_BLS12381G2_XMD:SHA-256_SSWU_RO_POP_"
SUITES = ("basic", "aug", "pop")
R = BLS_R

_hcache = {}


def hash_point(msg: bytes, dst: bytes):
    k = (bytes(msg), bytes(dst))
    if k not in _hcache:
        if len(_hcache) > 4096:
            _hcache.clear()
        _hcache[k] = h2c.hash_to_curve("G2", msg, dst)
    return _hcache[k]


def sk_to_pk_point(sk):
    return B.g1_mul(B.G1, sk)


def sk_to_pk(sk) -> bytes:
    return B.pubkey_bytes(sk_to_pk_point(sk))


def core_sign_point(sk, msg, dst):
    return B.g2_mul(hash_point(msg, dst), sk)


def augmented(suite, sk, msg):
    return sk_to_pk(sk) + msg if suite == "aug" else msg


def sign_point(suite, sk, msg):
    return core_sign_point(sk, augmented(suite, sk, msg), DST[suite])


def sign(suite, sk, msg) -> bytes:
    return B.signature_bytes(sign_point(suite, sk, msg))


def pop_prove(sk) -> bytes:
    return B.signature_bytes(core_sign_point(sk, sk_to_pk(sk), POP_TAG))


def aggregate_points(pts):
    acc = None
    for p in pts:
        acc = B.g2_add(acc, p)
    return acc


def aggregate(sigs) -> bytes:
    return B.signature_bytes(aggregate_points([B.signature_point(s) for s in sigs]))
