"""The two pairing-friendly curve families on model fields (plain ints / tuples).

For each curve: base field F1, quadratic extension F2 = F1[i]/(i^2+1), degree-12 extension
F12 = F1[w]/(w^12 - 2 a w^6 + (a^2+1)) where w^6 = a + i  (a = 1 for BLS12-381, 9 for BN254);
E1: y^2 = x^3 + b over F1, E2: y^2 = x^3 + b2 over F2 (BLS: M-twist b2 = b(1+i); BN: D-twist
b2 = b/(9+i)), E12: y^2 = x^3 + b over F12."""
from . import ec, nt, params
from .fields import Ext, Fp


class PairingCurve:
    def __init__(self, name, p, r, b, xi_a, mc12, g1, g2, twist_type, h1, h2):
        self.name, self.p, self.r, self.b_int = name, p, r, b
        self.F1 = Fp(p)
        self.F2 = Ext(p, (1, 0))
        self.F12 = Ext(p, mc12)
        self.xi = (xi_a, 1)                       # w^6 = xi = a + i
        self.xi_a = xi_a
        self.b = b % p
        self.twist_type = twist_type
        if twist_type == "M":
            self.b2 = self.F2.mul((b, 0), self.xi)
        else:
            self.b2 = self.F2.div((b, 0), self.xi)
        self.b12 = self.F12.from_int(b)
        self.G1, self.G2 = g1, g2
        self.h1, self.h2 = h1, h2
        # w and its powers in F12
        self.w = (0, 1) + (0,) * 10
        self.w2 = self.F12.mul(self.w, self.w)
        self.w3 = self.F12.mul(self.w2, self.w)
        # sanity of the tower: w^6 - a is a square root of -1
        w6 = self.F12.pow(self.w, 6)
        i12 = self.F12.sub(w6, self.F12.from_int(xi_a))
        assert self.F12.mul(i12, i12) == self.F12.from_int(-1), "tower inconsistent"
        self.i12 = i12

    # ---- embeddings ------------------------------------------------------------------------
    def fp2_to_fp12(self, a):
        """a0 + a1 i  ->  a0 + a1 (w^6 - xi_a)."""
        F = self.F12
        return F.add(F.from_int(a[0]), F.smul(self.i12, a[1]))

    def fp_to_fp12(self, a):
        return self.F12.from_int(a)

    def cast1(self, P):
        if P is None:
            return None
        return (self.fp_to_fp12(P[0]), self.fp_to_fp12(P[1]))

    def twist(self, Q):
        """E2(F2) -> E12(F12): (x, y) -> (x w^2, y w^3) for the D-twist (BN),
        (x / w^2, y / w^3) for the M-twist (BLS)."""
        if Q is None:
            return None
        F = self.F12
        x, y = self.fp2_to_fp12(Q[0]), self.fp2_to_fp12(Q[1])
        if self.twist_type == "D":
            return (F.mul(x, self.w2), F.mul(y, self.w3))
        return (F.div(x, self.w2), F.div(y, self.w3))

    # ---- groups --------------------------------------------------------------------------------
    def group(self, g):
        """(field, b) for g in 'G1', 'G2', 'G12'."""
        return {"G1": (self.F1, self.b), "G2": (self.F2, self.b2), "G12": (self.F12, self.b12)}[g]

    def on_curve(self, g, P):
        F, b = self.group(g)
        return ec.on_curve(F, P, b)

    def add(self, g, P, Q):
        return ec.add(self.group(g)[0], P, Q)

    def mul(self, g, P, n):
        return ec.mul(self.group(g)[0], P, n)

    def neg(self, g, P):
        return ec.neg(self.group(g)[0], P)

    def in_subgroup(self, g, P):
        return self.mul(g, P, self.r) is None

    # ---- square roots in F2 (complex method; p = 3 mod 4) ---------------------------------------
    def fp2_is_square(self, a):
        a0, a1 = a[0] % self.p, a[1] % self.p
        if a0 == 0 and a1 == 0:
            return True
        return nt.legendre(a0 * a0 + a1 * a1, self.p) == 1

    def fp2_sqrt(self, a):
        p = self.p
        a0, a1 = a[0] % p, a[1] % p
        if a1 == 0:
            s = nt.sqrt_mod(a0, p)
            if s is not None:
                return (s, 0)
            s = nt.sqrt_mod(-a0 % p, p)
            return (0, s)
        n = nt.sqrt_mod((a0 * a0 + a1 * a1) % p, p)
        if n is None:
            return None
        half = nt.inv_mod(2, p)
        for s in (n, -n % p):
            t = (a0 + s) * half % p
            x0 = nt.sqrt_mod(t, p)
            if x0 is not None and x0 != 0:
                x1 = a1 * nt.inv_mod(2 * x0, p) % p
                cand = (x0, x1)
                if self.F2.mul(cand, cand) == (a0, a1):
                    return cand
        return None

    def fp2_cbrt(self, a):
        """One cube root of a in F2 = Fp[i]/(i^2+1), or None.  |F2*| = p^2 - 1 = 3^s t; the 3-Sylow part
        is solved by a brute-force discrete logarithm (s is 2 for both curves)."""
        F = self.F2
        a = F.el(a)
        if F.is_zero(a):
            return F.zero
        n = self.p * self.p - 1
        if n % 3:
            return F.pow(a, pow(3, -1, n))
        if F.pow(a, n // 3) != F.one:
            return None
        s, t = 0, n
        while t % 3 == 0:
            s, t = s + 1, t // 3
        k = 1
        while True:
            c = (k, 1)
            if F.pow(c, n // 3) != F.one:
                break
            k += 1
        g = F.pow(c, t)
        e = pow(3, -1, t)
        m = (3 * e - 1) // t
        at = F.pow(a, t)
        g3 = F.pow(g, 3)
        gj, j = F.one, 0
        while gj != at:
            gj, j = F.mul(gj, g3), j + 1
            if j > 3 ** s:
                raise AssertionError("cube root: discrete log failed")
        root = F.mul(F.pow(a, e), F.pow(g, -(j * m) % (3 ** s * 3)))
        assert F.mul(F.mul(root, root), root) == a
        return root

    def sqrt(self, g, a):
        return self.F1.sqrt(a) if g == "G1" else self.fp2_sqrt(a)

    def lift_x(self, g, x):
        """A curve point with this x (either y), or None."""
        F, b = self.group(g)
        rhs = F.add(F.mul(F.mul(x, x), x), b)
        y = self.sqrt(g, rhs)
        if y is None:
            return None
        return (x, y)

    def point_from_seed(self, g, seed):
        """Deterministic curve point (generally outside the r-subgroup): first x >= seed on the
        curve."""
        F = self.group(g)[0]
        k = 0
        while True:
            x = (seed + k) % self.p if g == "G1" else ((seed + k) % self.p, (seed * 7 + 3) % self.p)
            P = self.lift_x(g, x)
            if P is not None:
                return P
            k += 1

    def torsion(self, g, seed):
        """Cofactor-torsion point: r * (random curve point) - lies outside the r-subgroup
        unless it is the identity."""
        return self.mul(g, self.point_from_seed(g, seed), self.r)


BLS = PairingCurve("bls12_381", params.BLS_P, params.BLS_R, 4, 1, params.BLS_FQ12_MC,
                   params.BLS_G1, params.BLS_G2, "M", params.BLS_H1, params.BLS_H2)
BN = PairingCurve("bn128", params.BN_P, params.BN_R, 3, 9, params.BN_FQ12_MC,
                  params.BN_G1, params.BN_G2, "D", 1, params.BN_H2)
CURVES = {"bls12_381": BLS, "bn128": BN}


def selfcheck():
    for C in (BLS, BN):
        assert nt.is_prime(C.p) and nt.is_prime(C.r)
        assert C.on_curve("G1", C.G1) and C.on_curve("G2", C.G2)
        assert C.mul("G1", C.G1, C.r) is None and C.mul("G2", C.G2, C.r) is None
        T = C.twist(C.G2)
        assert C.on_curve("G12", T)
        # group orders: #E1 = h1 r, #E2 = h2 r (checked on a random point)
        P = C.point_from_seed("G1", 5)
        assert C.mul("G1", P, C.h1 * C.r) is None
        Q = C.point_from_seed("G2", 5)
        assert C.mul("G2", Q, C.h2 * C.r) is None
        s = C.fp2_sqrt(C.F2.mul((3, 5), (3, 5)))
        assert C.F2.mul(s, s) == C.F2.mul((3, 5), (3, 5))
    return True
