"""Affine short-Weierstrass arithmetic y^2 = x^3 + a x + b over any model field.

A point is None (infinity) or a pair (x, y) of model-field elements."""


def on_curve(F, P, b, a=None):
    if P is None:
        return True
    x, y = P
    rhs = F.add(F.mul(F.mul(x, x), x), b)
    if a is not None:
        rhs = F.add(rhs, F.mul(a, x))
    return F.eq(F.mul(y, y), rhs)


def neg(F, P):
    if P is None:
        return None
    return (P[0], F.neg(P[1]))


def add(F, P, Q, a=None):
    """Textbook chord-and-tangent law with its four cases."""
    if P is None:
        return Q
    if Q is None:
        return P
    x1, y1 = P
    x2, y2 = Q
    if F.eq(x1, x2):
        if F.eq(y1, y2) and not F.is_zero(y1):
            num = F.smul(F.mul(x1, x1), 3)
            if a is not None:
                num = F.add(num, a)
            lam = F.div(num, F.smul(y1, 2))
        else:
            return None
    else:
        lam = F.div(F.sub(y2, y1), F.sub(x2, x1))
    x3 = F.sub(F.sub(F.mul(lam, lam), x1), x2)
    y3 = F.sub(F.mul(lam, F.sub(x1, x3)), y1)
    return (x3, y3)


def double(F, P, a=None):
    return add(F, P, P, a)


def mul(F, P, n, a=None):
    """Iterative, least-significant bit first.  Negative n multiplies the inverse."""
    if n < 0:
        P, n = neg(F, P), -n
    out, t = None, P
    while n:
        if n & 1:
            out = add(F, out, t, a)
        n >>= 1
        if n:
            t = add(F, t, t, a)
    return out


def eq(F, P, Q):
    if P is None or Q is None:
        return P is None and Q is None
    return F.eq(P[0], Q[0]) and F.eq(P[1], Q[1])


def points(F, b, a=None):
    """All affine points of a small curve (brute force), infinity excluded."""
    els = list(F.elements())
    sq = {}
    for y in els:
        sq.setdefault(F.mul(y, y), []).append(y)
    out = []
    for x in els:
        rhs = F.add(F.mul(F.mul(x, x), x), b)
        if a is not None:
            rhs = F.add(rhs, F.mul(a, x))
        for y in sq.get(rhs, ()):
            out.append((x, y))
    return out


def point_order(F, P, a=None):
    n, Q = 1, P
    while Q is not None:
        Q = add(F, Q, P, a)
        n += 1
    return n


def line(F, P1, P2, T, a=None):
    """Affine line function through P1, P2 (tangent if equal, vertical if inverse)
    evaluated at T; all three finite."""
    x1, y1 = P1
    x2, y2 = P2
    xt, yt = T
    if not F.eq(x1, x2):
        m = F.div(F.sub(y2, y1), F.sub(x2, x1))
    elif F.eq(y1, y2) and not F.is_zero(y1):
        num = F.smul(F.mul(x1, x1), 3)
        if a is not None:
            num = F.add(num, a)
        m = F.div(num, F.smul(y1, 2))
    else:
        return F.sub(xt, x1)
    return F.sub(F.mul(m, F.sub(xt, x1)), F.sub(yt, y1))
