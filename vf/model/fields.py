"""Finite fields on plain ints / coefficient tuples.

Fp(p): elements are ints in [0, p).
Ext(p, mc): GF(p)[x] / (x^d + mc[d-1] x^(d-1) + ... + mc[0]); elements are d-tuples of ints,
low degree first.  Product is schoolbook followed by long-division reduction from the
top; inversion is by solving the linear system a*y = 1 (Gaussian elimination), i.e. not
the polynomial extended Euclid the library uses."""
from . import nt


class Fp:
    degree = 1

    def __init__(self, p):
        self.p = p
        self.order = p
        self.zero = 0
        self.one = 1 % p

    def el(self, x):
        return x % self.p

    def from_int(self, n):
        return n % self.p

    def add(self, a, b):
        return (a + b) % self.p

    def sub(self, a, b):
        return (a - b) % self.p

    def neg(self, a):
        return (-a) % self.p

    def mul(self, a, b):
        return a * b % self.p

    def smul(self, a, k):
        return a * k % self.p

    def inv(self, a):
        return nt.inv_mod(a, self.p)

    def inv0(self, a):
        return nt.inv0(a, self.p)

    def div(self, a, b):
        return a * nt.inv_mod(b, self.p) % self.p

    def pow(self, a, n):
        return pow(a, n, self.p)

    def is_zero(self, a):
        return a % self.p == 0

    def eq(self, a, b):
        return (a - b) % self.p == 0

    def sqrt(self, a):
        return nt.sqrt_mod(a, self.p)

    def sgn0(self, a):
        return a % 2

    def elements(self):
        return range(self.p)

    def coeffs(self, a):
        return (a,)


class Ext:
    def __init__(self, p, mc):
        self.p = p
        self.mc = tuple(c % p for c in mc)
        self.degree = len(mc)
        self.order = p ** self.degree
        self.zero = (0,) * self.degree
        self.one = (1 % p,) + (0,) * (self.degree - 1)

    def el(self, cs):
        assert len(cs) == self.degree
        return tuple(c % self.p for c in cs)

    def from_int(self, n):
        return (n % self.p,) + (0,) * (self.degree - 1)

    def add(self, a, b):
        p = self.p
        return tuple((x + y) % p for x, y in zip(a, b))

    def sub(self, a, b):
        p = self.p
        return tuple((x - y) % p for x, y in zip(a, b))

    def neg(self, a):
        p = self.p
        return tuple((-x) % p for x in a)

    def smul(self, a, k):
        p = self.p
        return tuple(x * k % p for x in a)

    def mul(self, a, b):
        d, p, mc = self.degree, self.p, self.mc
        t = [0] * (2 * d - 1)
        for i, x in enumerate(a):
            if x:
                for j, y in enumerate(b):
                    t[i + j] += x * y
        # long division by x^d + sum mc[i] x^i, highest term first
        for k in range(2 * d - 2, d - 1, -1):
            top = t[k] % p
            t[k] = 0
            if top:
                base = k - d
                for i in range(d):
                    if mc[i]:
                        t[base + i] -= top * mc[i]
        return tuple(x % p for x in t[:d])

    def mulx_matrix(self, a):
        """Columns: a * x^j  (matrix of multiplication by a)."""
        cols, cur = [], tuple(a)
        xel = (0, 1) + (0,) * (self.degree - 2) if self.degree > 1 else None
        for _ in range(self.degree):
            cols.append(cur)
            cur = self.mul(cur, xel)
        return cols

    def inv(self, a):
        d, p = self.degree, self.p
        if all(c % p == 0 for c in a):
            raise ZeroDivisionError("inverse of 0")
        cols = self.mulx_matrix(a)
        # solve sum_j y_j * cols[j] = one
        M = [[cols[j][i] for j in range(d)] + [1 if i == 0 else 0] for i in range(d)]
        for c in range(d):
            piv = next(r for r in range(c, d) if M[r][c] % p)
            M[c], M[piv] = M[piv], M[c]
            iv = nt.inv_mod(M[c][c], p)
            M[c] = [v * iv % p for v in M[c]]
            for r in range(d):
                if r != c and M[r][c] % p:
                    f = M[r][c]
                    M[r] = [(v - f * w) % p for v, w in zip(M[r], M[c])]
        return tuple(M[i][d] for i in range(d))

    def inv0(self, a):
        return self.zero if self.is_zero(a) else self.inv(a)

    def div(self, a, b):
        return self.mul(a, self.inv(b))

    def pow(self, a, n):
        if n < 0:
            a, n = self.inv(a), -n
        out, t = self.one, a
        while n:
            if n & 1:
                out = self.mul(out, t)
            n >>= 1
            if n:
                t = self.mul(t, t)
        return out

    def is_zero(self, a):
        return all(c % self.p == 0 for c in a)

    def eq(self, a, b):
        return all((x - y) % self.p == 0 for x, y in zip(a, b))

    def sgn0(self, a):
        """RFC 9380 section 4.1: parity of the first non-zero coordinate."""
        for c in a:
            if c % self.p:
                return (c % self.p) % 2
        return 0

    def elements(self):
        import itertools
        for t in itertools.product(range(self.p), repeat=self.degree):
            yield t[::-1]

    def coeffs(self, a):
        return tuple(a)

    def sqrt(self, a):
        """Generic (slow) square root for small fields: brute force."""
        if self.order > 10 ** 6:
            raise NotImplementedError
        for y in self.elements():
            if self.mul(y, y) == tuple(a):
                return y
        return None


# ---- polynomial irreducibility (Rabin) over GF(p), for small p ---------------------------
def _pmod(a, m, p):
    a = [c % p for c in a]
    dm = len(m) - 1
    iv = nt.inv_mod(m[-1], p)
    while len(a) - 1 >= dm and any(a):
        while a and a[-1] == 0:
            a.pop()
        if len(a) - 1 < dm:
            break
        f = a[-1] * iv % p
        sh = len(a) - 1 - dm
        for i, c in enumerate(m):
            a[sh + i] = (a[sh + i] - f * c) % p
    while a and a[-1] == 0:
        a.pop()
    return a


def _pmul(a, b, p):
    if not a or not b:
        return []
    t = [0] * (len(a) + len(b) - 1)
    for i, x in enumerate(a):
        for j, y in enumerate(b):
            t[i + j] = (t[i + j] + x * y) % p
    return t


def _pgcd(a, b, p):
    a, b = list(a), list(b)
    while b:
        a, b = b, _pmod(a, b, p)
    return a


def _ppowmod(base, e, m, p):
    out, t = [1], _pmod(base, m, p)
    while e:
        if e & 1:
            out = _pmod(_pmul(out, t, p), m, p)
        e >>= 1
        t = _pmod(_pmul(t, t, p), m, p)
    return out


def is_irreducible(mc, p):
    """x^d + sum mc[i] x^i irreducible over GF(p)?  (Rabin's test)"""
    d = len(mc)
    m = [c % p for c in mc] + [1]
    if d == 1:
        return True
    for q in nt.factor_small(d):
        h = _ppowmod([0, 1], p ** (d // q), m, p)
        h = h + [0] * (2 - len(h))
        h[1] = (h[1] - 1) % p
        while h and h[-1] == 0:
            h.pop()
        g = _pgcd(m, h, p) if h else m
        if len(g) - 1 > 0:
            return False
    h = _ppowmod([0, 1], p ** d, m, p)
    h = h + [0] * (2 - len(h))
    h[1] = (h[1] - 1) % p
    while h and h[-1] == 0:
        h.pop()
    return not h
