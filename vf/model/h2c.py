"""RFC 9380 hash-to-curve for BLS12-381 G1/G2, written from the RFC text on plain ints.

expand_message_xmd (5.3.1), hash_to_field (5.2), sgn0 (4.1), simplified SWU straight from
6.6.2 with real inversions and square roots, isogenies as affine rational maps,
cofactor clearing by h_eff multiplication (and by the psi endomorphism for G2)."""
import hashlib

from . import nt
from .params import BLS_P

P = BLS_P
L_FIELD = 64


# ---- 5.3.1 --------------------------------------------------------------------------------
def expand_message_xmd(msg: bytes, dst: bytes, len_in_bytes: int, hash_name_or_ctor="sha256") -> bytes:
    H = (lambda data=b"": hashlib.new(hash_name_or_ctor, data)) if isinstance(hash_name_or_ctor, str) \
        else hash_name_or_ctor
    b_in_bytes = H().digest_size
    s_in_bytes = H().block_size
    ell = -(-len_in_bytes // b_in_bytes)
    if ell > 255 or len_in_bytes > 65535 or len(dst) > 255:
        raise ValueError("expand_message_xmd: abort")
    dst_prime = dst + bytes([len(dst)])
    z_pad = bytes(s_in_bytes)
    l_i_b_str = len_in_bytes.to_bytes(2, "big")
    msg_prime = z_pad + msg + l_i_b_str + b"\x00" + dst_prime
    b0 = H(msg_prime).digest()
    bi = H(b0 + b"\x01" + dst_prime).digest()
    uniform = bi
    for i in range(2, ell + 1):
        x = bytes(a ^ b for a, b in zip(b0, bi))
        bi = H(x + bytes([i]) + dst_prime).digest()
        uniform += bi
    return uniform[:len_in_bytes]


def xmd_blocks(msg, dst, n, name):
    """(b_0, [b_1 .. b_ell]) of RFC 9380 5.3.1, recomputed here for classification and for the search below."""
    H = lambda d: hashlib.new(name, d).digest()
    hh = hashlib.new(name)
    b, bs = hh.digest_size, hh.block_size
    ell = -(-n // b)
    dp = dst + bytes([len(dst)])
    b0 = H(bytes(bs) + msg + n.to_bytes(2, "big") + b"\x00" + dp)
    out = [H(b0 + b"\x01" + dp)]
    for i in range(2, ell + 1):
        out.append(H(bytes(x ^ y for x, y in zip(b0, out[-1])) + bytes([i]) + dp))
    return b0, out


BLOCK_KINDS = ("lead_zero_both", "trail_zero_both", "lead_equal", "trail_equal")


def block_class(b0, bl):
    """Relations between b_0 and the blocks that are XORed with it (b_1 .. b_(ell-1)): both start (end) with a
    zero byte, or start (end) with the same byte so that the XOR does.  Integer-valued or stripped
    implementations of strxor are wrong exactly there."""
    out = set()
    for bi in bl[:-1]:
        if b0[0] == 0 and bi[0] == 0:
            out.add("lead_zero_both")
        if b0[-1] == 0 and bi[-1] == 0:
            out.add("trail_zero_both")
        if b0[0] == bi[0]:
            out.add("lead_equal")
        if b0[-1] == bi[-1]:
            out.add("trail_equal")
    return out


def search_blocks(msg, dst, n, name, kind):
    """Append a counter to msg until the block sequence falls into class `kind` (a few hundred hashes)."""
    H = lambda d: hashlib.new(name, d).digest()
    bs = hashlib.new(name).block_size
    dp = dst + bytes([len(dst)])
    tail = n.to_bytes(2, "big") + b"\x00" + dp
    for c in range(2000000):
        m2 = msg + c.to_bytes(3, "big")
        if kind.endswith("zero_both"):
            b0 = H(bytes(bs) + m2 + tail)
            if (b0[0] if kind.startswith("lead") else b0[-1]) != 0:
                continue
        if kind in block_class(*xmd_blocks(m2, dst, n, name)):
            return m2
    raise RuntimeError("no message found for block class " + kind)


# ---- 5.2 ------------------------------------------------------------------------------------
def hash_to_field(msg, count, dst, m, hash_name="sha256", p=P):
    """Returns a list of `count` elements, each a tuple of m ints."""
    len_in_bytes = count * m * L_FIELD
    u = expand_message_xmd(msg, dst, len_in_bytes, hash_name)
    out = []
    for i in range(count):
        e = []
        for j in range(m):
            off = L_FIELD * (j + i * m)
            e.append(int.from_bytes(u[off:off + L_FIELD], "big") % p)
        out.append(tuple(e))
    return out


# ---- 4.1 sgn0 -------------------------------------------------------------------------------
def sgn0(x):
    """x is an int (m = 1) or a tuple of ints: parity of the first non-zero coordinate."""
    if isinstance(x, int):
        return (x % P) % 2
    for c in x:
        if c % P:
            return (c % P) % 2
    return 0


# ---- 6.6.2 simplified SWU, straight-line version of the RFC ------------------------------------
class Suite:
    """One of the two suites: the model field, the isogenous curve E': y^2 = x^3 + A x + B, Z,
    the isogeny E' -> E as four polynomials (low degree first), h_eff and the group tag."""

    def __init__(self, g, F, A, B, Z, xnum, xden, ynum, yden, heff, is_square, sqrt):
        self.g, self.F, self.A, self.B, self.Z = g, F, A, B, Z
        self.xnum, self.xden, self.ynum, self.yden = xnum, xden, ynum, yden
        self.heff, self.is_square, self.sqrt = heff, is_square, sqrt

    def gx(self, x):
        F = self.F
        return F.add(F.add(F.mul(F.mul(x, x), x), F.mul(self.A, x)), self.B)

    def sswu(self, u):
        """Returns ((x, y) on E', info) with info = dict(branch='x1'|'x2', exceptional=bool)."""
        F, A, B, Z = self.F, self.A, self.B, self.Z
        u2 = F.mul(u, u)
        zu2 = F.mul(Z, u2)
        tv1 = F.inv0(F.add(F.mul(zu2, zu2), zu2))
        exceptional = F.is_zero(tv1)
        x1 = F.mul(F.div(F.neg(B), A), F.add(F.one, tv1))
        if exceptional:
            x1 = F.div(B, F.mul(Z, A))
        gx1 = self.gx(x1)
        x2 = F.mul(zu2, x1)
        gx2 = self.gx(x2)
        if self.is_square(gx1):
            x, y, branch = x1, self.sqrt(gx1), "x1"
        else:
            x, y, branch = x2, self.sqrt(gx2), "x2"
        if y is None:
            raise AssertionError("SSWU: neither gx1 nor gx2 is a square (impossible)")
        if sgn0(u) != sgn0(y):
            y = F.neg(y)
        return (x, y), {"branch": branch, "exceptional": exceptional}

    def _poly(self, cs, x):
        F = self.F
        acc = F.zero
        for c in reversed(cs):
            acc = F.add(F.mul(acc, x), c)
        return acc

    def iso_map(self, pt):
        """Affine rational map; a vanishing denominator maps to the identity (RFC 9380 E.2/E.3)."""
        if pt is None:
            return None
        F = self.F
        x, y = pt
        xd, yd = self._poly(self.xden, x), self._poly(self.yden, x)
        if F.is_zero(xd) or F.is_zero(yd):
            return None
        X = F.div(self._poly(self.xnum, x), xd)
        Y = F.mul(y, F.div(self._poly(self.ynum, x), yd))
        return (X, Y)

    def map_to_curve(self, u):
        pt, info = self.sswu(u)
        return self.iso_map(pt), info

    def on_iso_curve(self, pt):
        x, y = pt
        return self.F.eq(self.F.mul(y, y), self.gx(x))


def _suites():
    from . import isoconst as k
    from .curves import BLS
    from .params import BLS_HEFF1, BLS_HEFF2
    F1, F2 = BLS.F1, BLS.F2
    el2 = lambda t: (t[0] % P, t[1] % P)  # noqa: E731
    s1 = Suite("G1", F1, k.ISO11_A % P, k.ISO11_B % P, k.ISO11_Z % P,
               tuple(c % P for c in k.ISO11_XNUM), tuple(c % P for c in k.ISO11_XDEN),
               tuple(c % P for c in k.ISO11_YNUM), tuple(c % P for c in k.ISO11_YDEN),
               BLS_HEFF1, lambda a: nt.legendre(a, P) >= 0, lambda a: nt.sqrt_mod(a, P))
    s2 = Suite("G2", F2, el2(k.ISO3_A), el2(k.ISO3_B), el2(k.ISO3_Z),
               tuple(map(el2, k.ISO3_XNUM)), tuple(map(el2, k.ISO3_XDEN)),
               tuple(map(el2, k.ISO3_YNUM)), tuple(map(el2, k.ISO3_YDEN)),
               BLS_HEFF2, BLS.fp2_is_square, BLS.fp2_sqrt)
    return s1, s2


_S = None


def suite(g):
    global _S
    if _S is None:
        _S = _suites()
    return _S[0] if g == "G1" else _S[1]


def hash_to_curve(g, msg, dst, hash_name="sha256"):
    from .curves import BLS
    S = suite(g)
    m = 1 if g == "G1" else 2
    us = hash_to_field(msg, 2, dst, m, hash_name)
    if g == "G1":
        us = [u[0] for u in us]
    q0, _ = S.map_to_curve(us[0])
    q1, _ = S.map_to_curve(us[1])
    r = BLS.add(g, q0, q1)
    return BLS.mul(g, r, S.heff)


def exceptional_us(g):
    """Non-zero u with Z^2 u^4 + Z u^2 = 0, i.e. u^2 = -1/Z (empty if -1/Z is a non-square)."""
    S = suite(g)
    F = S.F
    t = F.neg(F.inv(S.Z))
    if not S.is_square(t):
        return []
    r = S.sqrt(t)
    return [r, F.neg(r)]


# RFC 9380 appendix J.9.1 / J.10.1 (copied from the repository's tests: they anchor the MODEL)
H2C_DST_G1 = b"QUUX-V01-CS02-with-BLS12381G1_XMD:SHA-256_SSWU_RO_"
H2C_DST_G2 = b"QUUX-V01-CS02-with-BLS12381G2_XMD:SHA-256_SSWU_RO_"
from .h2c_vectors import G1 as H2C_G1_VECTORS, G2 as H2C_G2_VECTORS  # noqa: E402


def selfcheck():
    from .curves import BLS
    for g in ("G1", "G2"):
        S = suite(g)
        F = S.F
        # the isogeny sends E' to E and is additive (checked on SSWU images)
        us = [3, 5, 7] if g == "G1" else [(3, 1), (5, 2), (7, 11)]
        pts = [S.sswu(u)[0] for u in us]
        for pt in pts:
            assert S.on_iso_curve(pt)
            assert BLS.on_curve(g, S.iso_map(pt)), "isogeny image off curve"
        from . import ec
        s = ec.add(F, pts[0], pts[1], a=S.A)
        assert S.on_iso_curve(s)
        assert S.iso_map(s) == BLS.add(g, S.iso_map(pts[0]), S.iso_map(pts[1])), "isogeny not additive"
    for msg, x, y in H2C_G1_VECTORS:
        assert hash_to_curve("G1", msg, H2C_DST_G1) == (x, y), "model disagrees with RFC 9380 J.9.1"
    for msg, x, y in H2C_G2_VECTORS:
        assert hash_to_curve("G2", msg, H2C_DST_G2) == (x, y), "model disagrees with RFC 9380 J.10.1"
    # G2 has no non-zero exceptional u, G1 has two
    assert exceptional_us("G2") == [] and len(exceptional_us("G1")) == 2
    return True


# ---- inputs whose SWU image lies in the kernel of the isogeny ------------------------------------------------
def _poly_roots(coeffs, p):
    """All roots in GF(p) of the polynomial (low degree first): gcd with x^p - x, then equal-degree
    splitting with (x + a)^((p-1)/2) - 1."""
    from .fields import _pgcd, _pmod, _ppowmod
    f = [c % p for c in coeffs]
    while f and f[-1] == 0:
        f.pop()
    xp = _ppowmod([0, 1], p, f, p)
    h = xp + [0] * (2 - len(xp))
    h[1] = (h[1] - 1) % p
    while h and h[-1] == 0:
        h.pop()
    g = _pgcd(f, h, p) if h else f
    roots, stack, a = [], [g], 1
    while stack:
        q = stack.pop()
        while q and q[-1] == 0:
            q.pop()
        d = len(q) - 1
        if d <= 0:
            continue
        if d == 1:
            roots.append((-q[0] * pow(q[1], -1, p)) % p)
            continue
        while True:
            t = _ppowmod([a % p, 1], (p - 1) // 2, q, p)
            a += 1
            t = t + [0] * (1 - len(t))
            t[0] = (t[0] - 1) % p
            while t and t[-1] == 0:
                t.pop()
            if not t:
                continue
            s = _pgcd(q, t, p)
            if 0 < len(s) - 1 < d:
                # q / s
                quo, rem = [], list(q)
                inv = pow(s[-1], -1, p)
                for k in range(len(q) - len(s), -1, -1):
                    c = rem[k + len(s) - 1] * inv % p
                    quo.insert(0, c)
                    for i, sc in enumerate(s):
                        rem[k + i] = (rem[k + i] - c * sc) % p
                stack += [s, quo]
                break
    return sorted(set(roots))


def iso_kernel_us(g="G1"):
    """Field elements u whose simplified-SWU image is a rational point of the isogeny's kernel (the x
    denominator vanishes): RFC 9380 maps them to the identity.  Only G1 has such u (the 3-isogeny kernel
    of the G2 suite is not rational)."""
    if g != "G1":
        return []
    S = suite("G1")
    F, A, B, Z = S.F, S.A, S.B, S.Z
    mba = F.div(F.neg(B), A)                          # -B/A
    us = set()
    for x0 in _poly_roots(S.xden, P):
        ts = []
        # branch x = x1:  (-B/A)(1 + 1/(t^2+t)) = x0
        c = F.sub(F.div(x0, mba), 1)
        if c:
            disc = F.add(1, F.mul(4, F.inv(c)))
            r = nt.sqrt_mod(disc, P)
            if r is not None:
                ts += [F.div(F.sub(r, 1), 2), F.div(F.sub(F.neg(r), 1), 2)]
        # branch x = x2 = t x1:  (-B/A)(t^2 + t + 1) = x0 (t + 1)
        qa, qb, qc = mba, F.sub(mba, x0), F.sub(mba, x0)
        disc = F.sub(F.mul(qb, qb), F.mul(4, F.mul(qa, qc)))
        r = nt.sqrt_mod(disc, P)
        if r is not None:
            ts += [F.div(F.sub(r, qb), F.mul(2, qa)), F.div(F.sub(F.neg(r), qb), F.mul(2, qa))]
        for t in ts:
            u = nt.sqrt_mod(F.div(t, Z), P)
            if u is None:
                continue
            for cand in (u, F.neg(u)):
                if S.map_to_curve(cand)[0] is None:
                    us.add(cand)
    return sorted(us)
