"""RFC 9380 hash-to-curve for BLS12-381 G1/G2, written from the RFC text on plain ints.

expand_message_xmd (5.3.1), hash_to_field (5.2), sgn0 (4.1), simplified SWU straight from
6.6.2 with real inversions and square roots, isogenies as affine rational maps,
cofactor clearing by h_eff multiplication (and by the psi endomorphism for G2)."""
import hashlib

from . import nt
from .params import BLS_P

P = BLS_P
L_FIELD = 64


# ---- 5.3.1 --------------------------------------------------------------------------------
def expand_message_xmd(msg: bytes, dst: bytes, len_in_bytes: int, hash_name_or_ctor="sha256") -> bytes:
    H = (lambda data=b"": hashlib.new(hash_name_or_ctor, data)) if isinstance(hash_name_or_ctor, str) \
        else hash_name_or_ctor
    b_in_bytes = H().digest_size
    s_in_bytes = H().block_size
    ell = -(-len_in_bytes // b_in_bytes)
    if ell > 255 or len_in_bytes > 65535 or len(dst) > 255:
        raise ValueError("expand_message_xmd: abort")
    dst_prime = dst + bytes([len(dst)])
    z_pad = bytes(s_in_bytes)
    l_i_b_str = len_in_bytes.to_bytes(2, "big")
    msg_prime = z_pad + msg + l_i_b_str + b"\x00" + dst_prime
    b0 = H(msg_prime).digest()
    bi = H(b0 + b"\x01" + dst_prime).digest()
    uniform = bi
    for i in range(2, ell + 1):
        x = bytes(a ^ b for a, b in zip(b0, bi))
        bi = H(x + bytes([i]) + dst_prime).digest()
        uniform += bi
    return uniform[:len_in_bytes]


# ---- 5.2 ------------------------------------------------------------------------------------
def hash_to_field(msg, count, dst, m, hash_name="sha256", p=P):
    """Returns a list of `count` elements, each a tuple of m ints."""
    len_in_bytes = count * m * L_FIELD
    u = expand_message_xmd(msg, dst, len_in_bytes, hash_name)
    out = []
    for i in range(count):
        e = []
        for j in range(m):
            off = L_FIELD * (j + i * m)
            e.append(int.from_bytes(u[off:off + L_FIELD], "big") % p)
        out.append(tuple(e))
    return out
