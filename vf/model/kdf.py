"""RFC 5869 HKDF-SHA256, RFC 6979 nonce, BLS draft-04 KeyGen.  hashlib/hmac only."""
import hashlib
import hmac

R_BLS = 0x73EDA753299D7D483339D80809A1D80553BDA402FFFE5BFEFFFFFFFF00000001


def hmac256(key: bytes, data: bytes) -> bytes:
    return hmac.new(bytes(key), bytes(data), hashlib.sha256).digest()


def hmac256_manual(key: bytes, data: bytes) -> bytes:
    """RFC 2104 written out, so that the model does not share hmac.new with the library."""
    key = bytes(key)
    if len(key) > 64:
        key = hashlib.sha256(key).digest()
    key = key + b"\x00" * (64 - len(key))
    ipad = bytes(b ^ 0x36 for b in key)
    opad = bytes(b ^ 0x5C for b in key)
    return hashlib.sha256(opad + hashlib.sha256(ipad + bytes(data)).digest()).digest()


def hkdf_extract(salt: bytes, ikm: bytes) -> bytes:
    return hmac256_manual(salt, ikm)


def hkdf_expand(prk: bytes, info: bytes, length: int) -> bytes:
    if length > 255 * 32:
        raise ValueError("length too large")
    out, t, i = b"", b"", 0
    while len(out) < length:
        i += 1
        t = hmac256_manual(prk, t + bytes(info) + bytes([i]))
        out += t
    return out[:length]


def keygen_v4(ikm: bytes, key_info: bytes = b"", r: int = R_BLS) -> int:
    """draft-irtf-cfrg-bls-signature-04 section 2.3."""
    salt = b"BLS-SIG-KEYGEN-SALT-"
    sk = 0
    L = 48  # ceil((3 * ceil(log2(r))) / 16)
    while sk == 0:
        salt = hashlib.sha256(salt).digest()
        prk = hkdf_extract(salt, bytes(ikm) + b"\x00")
        okm = hkdf_expand(prk, bytes(key_info) + L.to_bytes(2, "big"), L)
        sk = int.from_bytes(okm, "big") % r
    return sk


# ---- RFC 6979 -----------------------------------------------------------------------
SECP_N = 0xFFFFFFFFFFFFFFFFFFFFFFFFFFFFFFFEBAAEDCE6AF48A03BBFD25E8CD0364141


def rfc6979_first_candidate_raw(priv: bytes, h: bytes) -> int:
    """Section 3.2 steps b-h with the provided octets fed in as they are (no
    int2octets/bits2octets), returning the first candidate T as an integer."""
    V = b"\x01" * 32
    K = b"\x00" * 32
    K = hmac256_manual(K, V + b"\x00" + priv + h)
    V = hmac256_manual(K, V)
    K = hmac256_manual(K, V + b"\x01" + priv + h)
    V = hmac256_manual(K, V)
    V = hmac256_manual(K, V)
    return int.from_bytes(V, "big")


def rfc6979_strict(d: int, h: bytes, q: int = SECP_N) -> int:
    """Strict RFC 6979 for a 256-bit q and a hash given as octets h1 (already hashed)."""
    qlen = q.bit_length()
    rlen = (qlen + 7) // 8

    def bits2int(b):
        x = int.from_bytes(b, "big")
        bl = len(b) * 8
        return x >> (bl - qlen) if bl > qlen else x

    def int2octets(x):
        return x.to_bytes(rlen, "big")

    def bits2octets(b):
        z1 = bits2int(b)
        z2 = z1 - q if z1 >= q else z1
        return int2octets(z2)

    V = b"\x01" * 32
    K = b"\x00" * 32
    K = hmac256_manual(K, V + b"\x00" + int2octets(d) + bits2octets(h))
    V = hmac256_manual(K, V)
    K = hmac256_manual(K, V + b"\x01" + int2octets(d) + bits2octets(h))
    V = hmac256_manual(K, V)
    while True:
        T = b""
        while len(T) * 8 < qlen:
            V = hmac256_manual(K, V)
            T += V
        k = bits2int(T)
        if 1 <= k < q:
            return k
        K = hmac256_manual(K, V + b"\x00")
        V = hmac256_manual(K, V)
