"""Number theory on plain ints.  No py_ecc imports anywhere under vf/model."""


def is_prime(n: int) -> bool:
    """Deterministic for n < 3.3e24, strong probabilistic (40 fixed bases) beyond."""
    if n < 2:
        return False
    small = (2, 3, 5, 7, 11, 13, 17, 19, 23, 29, 31, 37, 41, 43, 47, 53, 59, 61, 67, 71,
             73, 79, 83, 89, 97, 101, 103, 107, 109, 113, 127, 131, 137, 139, 149, 151,
             157, 163, 167, 173)
    for q in small:
        if n % q == 0:
            return n == q
    d, s = n - 1, 0
    while d % 2 == 0:
        d //= 2
        s += 1
    for a in small:
        x = pow(a, d, n)
        if x in (1, n - 1):
            continue
        for _ in range(s - 1):
            x = x * x % n
            if x == n - 1:
                break
        else:
            return False
    return True


def inv_mod(a: int, p: int) -> int:
    a %= p
    if a == 0:
        raise ZeroDivisionError("inverse of 0")
    return pow(a, -1, p)


def inv0(a: int, p: int) -> int:
    a %= p
    return 0 if a == 0 else pow(a, -1, p)


def legendre(a: int, p: int) -> int:
    a %= p
    if a == 0:
        return 0
    return 1 if pow(a, (p - 1) // 2, p) == 1 else -1


def sqrt_mod(a: int, p: int):
    """Tonelli-Shanks; returns one root or None."""
    a %= p
    if a == 0:
        return 0
    if p == 2:
        return a
    if legendre(a, p) != 1:
        return None
    if p % 4 == 3:
        return pow(a, (p + 1) // 4, p)
    q, s = p - 1, 0
    while q % 2 == 0:
        q //= 2
        s += 1
    z = 2
    while legendre(z, p) != -1:
        z += 1
    m, c, t, r = s, pow(z, q, p), pow(a, q, p), pow(a, (q + 1) // 2, p)
    while t != 1:
        i, t2 = 0, t
        while t2 != 1:
            t2 = t2 * t2 % p
            i += 1
        b = pow(c, 1 << (m - i - 1), p)
        m, c = i, b * b % p
        t, r = t * c % p, r * b % p
    return r


def primes_below(n: int):
    return [q for q in range(2, n) if is_prime(q)]


def factor_small(n: int):
    """Trial division; for small n only."""
    out, d = {}, 2
    while d * d <= n:
        while n % d == 0:
            out[d] = out.get(d, 0) + 1
            n //= d
        d += 1
    if n > 1:
        out[n] = out.get(n, 0) + 1
    return out


def cbrt_mod(a: int, p: int):
    """One cube root of a modulo the prime p, or None.  For p = 1 (mod 3) the 3-Sylow part is
    handled by a brute-force discrete logarithm (fine while 3^s is small)."""
    a %= p
    if a == 0:
        return 0
    if p % 3 == 2:
        return pow(a, (2 * p - 1) // 3, p)
    if pow(a, (p - 1) // 3, p) != 1:
        return None
    s, t = 0, p - 1
    while t % 3 == 0:
        s, t = s + 1, t // 3
    if 3 ** s > 10 ** 6:
        raise NotImplementedError("3-Sylow subgroup too large for brute force")
    c = 2
    while pow(c, (p - 1) // 3, p) == 1:
        c += 1
    g = pow(c, t, p)                      # generator of the 3-Sylow subgroup (order 3^s)
    e = pow(3, -1, t)
    m = (3 * e - 1) // t
    at = pow(a, t, p)                     # = g^(3j) because a is a cube
    gj, j, g3 = 1, 0, pow(g, 3, p)
    while gj != at:
        gj, j = gj * g3 % p, j + 1
        if j > 3 ** s:
            raise AssertionError("cube root: discrete log failed")
    root = pow(a, e, p) * pow(g, -(j * m), p) % p
    assert pow(root, 3, p) == a
    return root


def cube_roots_of_unity(p: int):
    """The two primitive cube roots of unity modulo a prime p = 1 (mod 3) (roots of x^2 + x + 1), else []."""
    if p % 3 != 1:
        return []
    s = sqrt_mod((-3) % p, p)
    if s is None:
        return []
    h = inv_mod(2, p)
    out = sorted({(-1 + s) * h % p, (-1 - s) * h % p})
    assert all((w * w + w + 1) % p == 0 for w in out)
    return out


def endo_scalars(n: int):
    """Scalars related to the eigenvalues lambda of the order-3 automorphism (x, y) -> (beta x, y) of a j = 0 curve
    whose group order is the prime n: lambda, lambda +- 1, 2(lambda + 1), 1 - lambda, ... A double-and-add ladder
    over such a scalar adds two distinct points that share their y (or have opposite y) coordinate."""
    out = []
    for lam in cube_roots_of_unity(n):
        for v in (lam, lam + 1, lam - 1, 2 * (lam + 1), 2 * (lam + 1) + 1, 1 - lam, 2 * (1 - lam), 2 * (1 - lam) + 1,
                  -lam, -lam - 1, 2 * lam + 1, 2 * lam - 1, 3 * lam, (lam + 1) * 4, lam + n, lam + 1 + n):
            out.append(v % n)
            out.append(v % n - n)
            out.append(v % n + n)
    return sorted(set(out))
