"""Affine secp256k1 and textbook ECDSA on plain ints (identity = None)."""
from . import ec, nt
from .fields import Fp
from .params import SECP_B, SECP_G, SECP_N, SECP_P


class Curve:
    def __init__(self, p=SECP_P, n=SECP_N, b=SECP_B, g=SECP_G):
        self.F = Fp(p)
        self.p, self.n, self.b, self.g = p, n, b, g

    def add(self, P, Q):
        return ec.add(self.F, P, Q)

    def mul(self, P, k):
        return ec.mul(self.F, P, k)

    def neg(self, P):
        return ec.neg(self.F, P)

    def on_curve(self, P):
        return ec.on_curve(self.F, P, self.b)

    def lift_x(self, x, odd):
        """The curve point with this x and the requested y parity, or None."""
        if not 0 <= x < self.p:
            return None
        y = nt.sqrt_mod((x * x * x + self.b) % self.p, self.p)
        if y is None:
            return None
        if y % 2 != (1 if odd else 0):
            y = (self.p - y) % self.p
        if y % 2 != (1 if odd else 0):
            return None  # y == 0 has only even parity
        return (x, y)

    # ---- ECDSA ----
    def verify(self, Q, z, r, s):
        n = self.n
        if Q is None or not (1 <= r < n and 1 <= s < n):
            return False
        w = nt.inv_mod(s, n)
        X = self.add(self.mul(self.g, z * w % n), self.mul(Q, r * w % n))
        return X is not None and X[0] % n == r

    def sign_with_k(self, d, z, k):
        n = self.n
        R = self.mul(self.g, k)
        r = R[0] % n
        s = nt.inv_mod(k, n) * (z + r * d) % n
        return R, r, s

    def recover(self, z, r, s, odd):
        """Q with (r mod n) Q = s R - z G, R = lift_x(r, parity).  Returns ('raise', why) or
        ('point', Q) with Q possibly None (identity)."""
        n = self.n
        if r % n == 0:
            return ("raise", "r=0 mod N")
        if s % n == 0:
            return ("raise", "s=0 mod N")
        R = self.lift_x(r, odd)
        if R is None:
            return ("raise", "r not an x coordinate")
        sR = self.mul(R, s % n)
        zG = self.mul(self.g, z % n)
        Q = self.mul(self.add(sR, self.neg(zG)), nt.inv_mod(r % n, n))
        return ("point", Q)


SECP = Curve()
