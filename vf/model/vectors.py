"""External anchors: published test vectors, written down independently of py_ecc.

Each value was accepted only after it matched BOTH the pinned implementation and the
independent model (a mis-remembered 32..96 byte value cannot match two independent
computations by accident)."""

# RFC 5869 appendix A.1
HKDF_A1 = dict(
    ikm=bytes.fromhex("0b" * 22),
    salt=bytes.fromhex("000102030405060708090a0b0c"),
    info=bytes.fromhex("f0f1f2f3f4f5f6f7f8f9"),
    L=42,
    prk=bytes.fromhex("077709362c2e32df0ddc3f0dc47bba6390b6c73bb50f9c3122ec844ad7c2b3e5"),
    okm=bytes.fromhex(
        "3cb25f25faacd57a90434f64d0362f2a2d2d0a90cf1a5a4c5db02d56ecc4c5bf34007208d5b887185865"
    ),
)

# EIP-2333 test cases 0-3: seed -> master secret key (KeyGen with empty key_info)
EIP2333 = [
    (bytes.fromhex(
        "c55257c360c07c72029aebc1b53c05ed0362ada38ead3e3e9efa3708e53495531f09a6987599d18264c1e1"
        "c92f2cf141630c7a3c4ab7c81b2f001698e7463b04"),
     6083874454709270928345386274498605044986640685124978867557563392430687146096),
    (bytes.fromhex("3141592653589793238462643383279502884197169399375105820974944592"),
     29757020647961307431480504535336562678282505419141012933316116377660817309383),
    (bytes.fromhex("0099FF991111002299DD7744EE3355BBDD8844115566CC55663355668888CC00"),
     27580842291869792442942448775674722299803720648445448686099262467207037398656),
    (bytes.fromhex("d4e56740f876aef8c010b86a40d5f56745a118d0906a34e69aec8c0db1cb8fa3"),
     19022158461524446591288038168518313374041767046816487870552872741050760015818),
]

# RFC 6979-style deterministic ECDSA on secp256k1 (widely published "Satoshi Nakamoto" vector)
SECP_SATOSHI = dict(
    d=1,
    msg=b"Satoshi Nakamoto",
    k=0x8F8A276C19F4149656B280621E358CCE24F5F52542772691EE69063B74F15D15,
    r=0x934B1EA10A4B3C1757E2B0C017D0B6143CE3C9A7E6A4A49860D7A6AB210EE3D8,
    s=0x2442CE9D2B916064108014783E923EC36B49743E2FFA1C4496F01A512AAFD9E5,
)
