"""External anchors: published test vectors, written down independently of py_ecc.

Each value was accepted only after it matched BOTH the pinned implementation and the
independent model (a mis-remembered 32..96 byte value cannot match two independent
computations by accident)."""

# RFC 5869 appendix A.1
HKDF_A1 = dict(
    ikm=bytes.fromhex("0b" * 22),
    salt=bytes.fromhex("000102030405060708090a0b0c"),
    info=bytes.fromhex("f0f1f2f3f4f5f6f7f8f9"),
    L=42,
    prk=bytes.fromhex("077709362c2e32df0ddc3f0dc47bba6390b6c73bb50f9c3122ec844ad7c2b3e5"),
    okm=bytes.fromhex(
        "3cb25f25faacd57a90434f64d0362f2a2d2d0a90cf1a5a4c5db02d56ecc4c5bf34007208d5b887185865"
    ),
)

# EIP-2333 test cases 0-3: seed -> master secret key (KeyGen with empty key_info)
EIP2333 = [
    (bytes.fromhex(
        "c55257c360c07c72029aebc1b53c05ed0362ada38ead3e3e9efa3708e53495531f09a6987599d18264c1e1"
        "c92f2cf141630c7a3c4ab7c81b2f001698e7463b04"),
     6083874454709270928345386274498605044986640685124978867557563392430687146096),
    (bytes.fromhex("3141592653589793238462643383279502884197169399375105820974944592"),
     29757020647961307431480504535336562678282505419141012933316116377660817309383),
    (bytes.fromhex("0099FF991111002299DD7744EE3355BBDD8844115566CC55663355668888CC00"),
     27580842291869792442942448775674722299803720648445448686099262467207037398656),
    (bytes.fromhex("d4e56740f876aef8c010b86a40d5f56745a118d0906a34e69aec8c0db1cb8fa3"),
     19022158461524446591288038168518313374041767046816487870552872741050760015818),
]

# RFC 6979-style deterministic ECDSA on secp256k1 (widely published "Satoshi Nakamoto" vector)
SECP_SATOSHI = dict(
    d=1,
    msg=b"Satoshi Nakamoto",
    k=0x8F8A276C19F4149656B280621E358CCE24F5F52542772691EE69063B74F15D15,
    r=0x934B1EA10A4B3C1757E2B0C017D0B6143CE3C9A7E6A4A49860D7A6AB210EE3D8,
    s=0x2442CE9D2B916064108014783E923EC36B49743E2FFA1C4496F01A512AAFD9E5,
)

# draft-09 appendix I.1 vectors (copied from the repository's tests; anchor the MODEL)
XMD_DRAFT09_DST = b"QUUX-V01-CS02-with-expander"
XMD_DRAFT09 = [
    (b'', 32, bytes.fromhex(
        "f659819a6473c1835b25ea59e3d38914c98b374f0970b7e4c92181df928fca88")),
    (b'abc', 32, bytes.fromhex(
        "1c38f7c211ef233367b2420d04798fa4698080a8901021a795a1151775fe4da7")),
    (b'abcdef0123456789', 32, bytes.fromhex(
        "8f7e7b66791f0da0dbb5ec7c22ec637f79758c0a48170bfb7c4611bd304ece89")),
    (b'q128_qqqqqqqqqqqqqqqqqqqqqqqqqqqqqqqqqqqqqqqqqqqqqqqqqqqqqqqqqqqqqqqqqqqqqqqqqqqqqqqqqqqqqqqqqqqqqqqqqqqqqqqqqqqqqqqqqqqqqqqqqqqqqqqq', 32, bytes.fromhex(
        "72d5aa5ec810370d1f0013c0df2f1d65699494ee2a39f72e1716b1b964e1c642")),
    (b'a512_aaaaaaaaaaaaaaaaaaaaaaaaaaaaaaaaaaaaaaaaaaaaaaaaaaaaaaaaaaaaaaaaaaaaaaaaaaaaaaaaaaaaaaaaaaaaaaaaaaaaaaaaaaaaaaaaaaaaaaaaaaaaaaaaaaaaaaaaaaaaaaaaaaaaaaaaaaaaaaaaaaaaaaaaaaaaaaaaaaaaaaaaaaaaaaaaaaaaaaaaaaaaaaaaaaaaaaaaaaaaaaaaaaaaaaaaaaaaaaaaaaaaaaaaaaaaaaaaaaaaaaaaaaaaaaaaaaaaaaaaaaaaaaaaaaaaaaaaaaaaaaaaaaaaaaaaaaaaaaaaaaaaaaaaaaaaaaaaaaaaaaaaaaaaaaaaaaaaaaaaaaaaaaaaaaaaaaaaaaaaaaaaaaaaaaaaaaaaaaaaaaaaaaaaaaaaaaaaaaaaaaaaaaaaaaaaaaaaaaaaaaaaaaaaaaaaaaaaaaaaaaaaaaaaaaaaaaaaaaaaaaaaaaaaaaaaaaaaaaaaaaaaaaaaaaaa', 32, bytes.fromhex(
        "3b8e704fc48336aca4c2a12195b720882f2162a4b7b13a9c350db46f429b771b")),
    (b'', 128, bytes.fromhex(
        "8bcffd1a3cae24cf9cd7ab85628fd111bb17e3739d3b53f89580d217aa79526f1708354a76a402d3569d6a9d19ef3de4d0b991e4f54b9f20dcde9b95a66824cbdf6c1a963a1913d43fd7ac443a02fc5d9d8d77e2071b86ab114a9f34150954a7531da568a1ea8c760861c0cde2005afc2c114042ee7b5848f5303f0611cf297f")),
    (b'abc', 128, bytes.fromhex(
        "fe994ec51bdaa821598047b3121c149b364b178606d5e72bfbb713933acc29c186f316baecf7ea22212f2496ef3f785a27e84a40d8b299cec56032763eceeff4c61bd1fe65ed81decafff4a31d0198619c0aa0c6c51fca15520789925e813dcfd318b542f8799441271f4db9ee3b8092a7a2e8d5b75b73e28fb1ab6b4573c192")),
    (b'abcdef0123456789', 128, bytes.fromhex(
        "c9ec7941811b1e19ce98e21db28d22259354d4d0643e301175e2f474e030d32694e9dd5520dde93f3600d8edad94e5c364903088a7228cc9eff685d7eaac50d5a5a8229d083b51de4ccc3733917f4b9535a819b445814890b7029b5de805bf62b33a4dc7e24acdf2c924e9fe50d55a6b832c8c84c7f82474b34e48c6d43867be")),
    (b'q128_qqqqqqqqqqqqqqqqqqqqqqqqqqqqqqqqqqqqqqqqqqqqqqqqqqqqqqqqqqqqqqqqqqqqqqqqqqqqqqqqqqqqqqqqqqqqqqqqqqqqqqqqqqqqqqqqqqqqqqqqqqqqqqqq', 128, bytes.fromhex(
        "48e256ddba722053ba462b2b93351fc966026e6d6db493189798181c5f3feea377b5a6f1d8368d7453faef715f9aecb078cd402cbd548c0e179c4ed1e4c7e5b048e0a39d31817b5b24f50db58bb3720fe96ba53db947842120a068816ac05c159bb5266c63658b4f000cbf87b1209a225def8ef1dca917bcda79a1e42acd8069")),
    (b'a512_aaaaaaaaaaaaaaaaaaaaaaaaaaaaaaaaaaaaaaaaaaaaaaaaaaaaaaaaaaaaaaaaaaaaaaaaaaaaaaaaaaaaaaaaaaaaaaaaaaaaaaaaaaaaaaaaaaaaaaaaaaaaaaaaaaaaaaaaaaaaaaaaaaaaaaaaaaaaaaaaaaaaaaaaaaaaaaaaaaaaaaaaaaaaaaaaaaaaaaaaaaaaaaaaaaaaaaaaaaaaaaaaaaaaaaaaaaaaaaaaaaaaaaaaaaaaaaaaaaaaaaaaaaaaaaaaaaaaaaaaaaaaaaaaaaaaaaaaaaaaaaaaaaaaaaaaaaaaaaaaaaaaaaaaaaaaaaaaaaaaaaaaaaaaaaaaaaaaaaaaaaaaaaaaaaaaaaaaaaaaaaaaaaaaaaaaaaaaaaaaaaaaaaaaaaaaaaaaaaaaaaaaaaaaaaaaaaaaaaaaaaaaaaaaaaaaaaaaaaaaaaaaaaaaaaaaaaaaaaaaaaaaaaaaaaaaaaaaaaaaaaaaaaaaaaaa', 128, bytes.fromhex(
        "396962db47f749ec3b5042ce2452b619607f27fd3939ece2746a7614fb83a1d097f554df3927b084e55de92c7871430d6b95c2a13896d8a33bc48587b1f66d21b128a1a8240d5b0c26dfe795a1a842a0807bb148b77c2ef82ed4b6c9f7fcb732e7f94466c8b51e52bf378fba044a31f5cb44583a892f5969dcd73b3fa128816e")),
]

# RFC 9380 appendix K.1 (SHA-256) and K.2 (SHA-512), written down independently
XMD_RFC9380 = [
    ("sha256", b"QUUX-V01-CS02-with-expander-SHA256-128", b"", 32,
     bytes.fromhex("68a985b87eb6b46952128911f2a4412bbc302a9d759667f87f7a21d803f07235")),
    ("sha256", b"QUUX-V01-CS02-with-expander-SHA256-128", b"abc", 32,
     bytes.fromhex("d8ccab23b5985ccea865c6c97b6e5b8350e794e603b4b97902f53a8a0d605615")),
    ("sha512", b"QUUX-V01-CS02-with-expander-SHA512-256", b"", 32,
     bytes.fromhex("6b9a7312411d92f921c6f68ca0b6380730a1a4d982c507211a90964c394179ba")),
    ("sha512", b"QUUX-V01-CS02-with-expander-SHA512-256", b"abc", 32,
     bytes.fromhex("0da749f12fbe5483eb066a5f595055679b976e93abe9be6f0f6318bce7aca8dc")),
]


# Ethereum consensus-spec BLS vectors (POP suite), written down independently of py_ecc and kept
# only where they match BOTH the independent model and the pinned implementation.
ETH_SKS = [
    0x263dbd792f5b1be47ed85f8938c0f29586af0d3ac7b977f21c278fe1462040e3,
    0x47b8192d77bf871b62e87859d653922725724a5c031afeabc60bcef5ff665138,
    0x328388aff0d4a5b7dc9205abd374e7e98f3cd9f3418edb4eafda5fb16473d216,
]
ETH_MSGS = [b"\x00" * 32, b"\x56" * 32, b"\xab" * 32]
ETH_PKS = [
    bytes.fromhex("a491d1b0ecd9bb917989f0e74f0dea0422eac4a873e5e2644f368dffb9a6e20fd6e10c1b77654d067c0618f6e5a7f79a"),
    bytes.fromhex("b301803f8b5ac4a1133581fc676dfedc60d891dd5fa99028805e5ea5b08d3491af75d0707adab3b70c6a6a580217bf81"),
    bytes.fromhex("b53d21a4cfd562c469cc81514d4ce5a6b577d8403d32a394dc265dd190b47fa9f829fdd7963afdf972e5e77854051f6f"),
]
# (key index, message index) -> signature
ETH_SIGS = {
    (0, 0): bytes.fromhex("b6ed936746e01f8ecf281f020953fbf1f01debd5657c4a383940b020b26507f6076334f91e2366c96e9ab279fb5158090352ea1c5b0c9274504f4f0e7053af24802e51e4568d164fe986834f41e55c8e850ce1f98458c0cfc9ab380b55285a55"),
    (0, 1): bytes.fromhex("882730e5d03f6b42c3abc26d3372625034e1d871b65a8a6b900a56dae22da98abbe1b68f85e49fe7652a55ec3d0591c20767677e33e5cbb1207315c41a9ac03be39c2e7668edc043d6cb1d9fd93033caa8a1c5b0e84bedaeb6c64972503a43eb"),
    (0, 2): bytes.fromhex("91347bccf740d859038fcdcaf233eeceb2a436bcaaee9b2aa3bfb70efe29dfb2677562ccbea1c8e061fb9971b0753c240622fab78489ce96768259fc01360346da5b9f579e5da0d941e4c6ba18a0e64906082375394f337fa1af2b7127b0d121"),
    (1, 0): bytes.fromhex("b23c46be3a001c63ca711f87a005c200cc550b9429d5f4eb38d74322144f1b63926da3388979e5321012fb1a0526bcd100b5ef5fe72628ce4cd5e904aeaa3279527843fae5ca9ca675f4f51ed8f83bbf7155da9ecc9663100a885d5dc6df96d9"),
    (1, 1): bytes.fromhex("af1390c3c47acdb37131a51216da683c509fce0e954328a59f93aebda7e4ff974ba208d9a4a2a2389f892a9d418d618418dd7f7a6bc7aa0da999a9d3a5b815bc085e14fd001f6a1948768a3f4afefc8b8240dda329f984cb345c6363272ba4fe"),
    (1, 2): bytes.fromhex("9674e2228034527f4c083206032b020310face156d4a4685e2fcaec2f6f3665aa635d90347b6ce124eb879266b1e801d185de36a0a289b85e9039662634f2eea1e02e670bc7ab849d006a70b2f93b84597558a05b879c8d445f387a5d5b653df"),
    (2, 0): bytes.fromhex("948a7cb99f76d616c2c564ce9bf4a519f1bea6b0a624a02276443c245854219fabb8d4ce061d255af5330b078d5380681751aa7053da2c98bae898edc218c75f07e24d8802a17cd1f6833b71e58f5eb5b94208b4d0bb3848cecb075ea21be115"),
    (2, 1): bytes.fromhex("a4efa926610b8bd1c8330c918b7a5e9bf374e53435ef8b7ec186abf62e1b1f65aeaaeb365677ac1d1172a1f5b44b4e6d022c252c58486c0a759fbdc7de15a756acc4d343064035667a594b4c2a6f0b0b421975977f297dba63ee2f63ffe47bb6"),
    (2, 2): bytes.fromhex("ae82747ddeefe4fd64cf9cedb9b04ae3e8a43420cd255e3c7cd06a8d88b7c7f8638543719981c5d16fa3527c468c25f0026704a6951bde891360c7e8d12ddee0559004ccdbe6046b55bae1b257ee97f7cdb955773d7cf29adf3ccbb9975e4eb9"),
}
# message index -> aggregate of the three signers' signatures
ETH_AGGS = {
    0: bytes.fromhex("9683b3e6701f9a4b706709577963110043af78a5b41991b998475a3d3fd62abf35ce03b33908418efc95a058494a8ae504354b9f626231f6b3f3c849dfdeaf5017c4780e2aee1850ceaf4b4d9ce70971a3d2cfcd97b7e5ecf6759f8da5f76d31"),
    2: bytes.fromhex("9712c3edd73a209c742b8250759db12549b3eaf43b5ca61376d9f30e2747dbcf842d8b2ac0901d2a093713e20284a7670fcf6954e9ab93de991bb9b313e664785a075fc285806fa5224c82bde146561b446ccfc706a64b8579513cfc4ff1d930"),
}
G1_GEN_COMPRESSED_PREFIX = "97f1d3a73197d794"
G2_GEN_COMPRESSED_PREFIX = "93e02b6052719f60"
