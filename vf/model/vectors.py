"""External anchors: published test vectors, written down independently of py_ecc.

Each value was accepted only after it matched BOTH the pinned implementation and the
independent model (a mis-remembered 32..96 byte value cannot match two independent
computations by accident)."""

# RFC 5869 appendix A.1
HKDF_A1 = dict(
    ikm=bytes.fromhex("0b" * 22),
    salt=bytes.fromhex("000102030405060708090a0b0c"),
    info=bytes.fromhex("f0f1f2f3f4f5f6f7f8f9"),
    L=42,
    prk=bytes.fromhex("077709362c2e32df0ddc3f0dc47bba6390b6c73bb50f9c3122ec844ad7c2b3e5"),
    okm=bytes.fromhex(
        "3cb25f25faacd57a90434f64d0362f2a2d2d0a90cf1a5a4c5db02d56ecc4c5bf34007208d5b887185865"
    ),
)

# EIP-2333 test cases 0-3: seed -> master secret key (KeyGen with empty key_info)
EIP2333 = [
    (bytes.fromhex(
        "c55257c360c07c72029aebc1b53c05ed0362ada38ead3e3e9efa3708e53495531f09a6987599d18264c1e1"
        "c92f2cf141630c7a3c4ab7c81b2f001698e7463b04"),
     6083874454709270928345386274498605044986640685124978867557563392430687146096),
    (bytes.fromhex("3141592653589793238462643383279502884197169399375105820974944592"),
     29757020647961307431480504535336562678282505419141012933316116377660817309383),
    (bytes.fromhex("0099FF991111002299DD7744EE3355BBDD8844115566CC55663355668888CC00"),
     27580842291869792442942448775674722299803720648445448686099262467207037398656),
    (bytes.fromhex("d4e56740f876aef8c010b86a40d5f56745a118d0906a34e69aec8c0db1cb8fa3"),
     19022158461524446591288038168518313374041767046816487870552872741050760015818),
]

# RFC 6979-style deterministic ECDSA on secp256k1 (widely published "Satoshi Nakamoto" vector)
SECP_SATOSHI = dict(
    d=1,
    msg=b"Satoshi Nakamoto",
    k=0x8F8A276C19F4149656B280621E358CCE24F5F52542772691EE69063B74F15D15,
    r=0x934B1EA10A4B3C1757E2B0C017D0B6143CE3C9A7E6A4A49860D7A6AB210EE3D8,
    s=0x2442CE9D2B916064108014783E923EC36B49743E2FFA1C4496F01A512AAFD9E5,
)

# draft-09 appendix I.1 vectors (copied from the repository's tests; anchor the MODEL)
XMD_DRAFT09_DST = b"QUUX-V01-CS02-with-expander"
XMD_DRAFT09 = [
    (b'', 32, bytes.fromhex(
        "f659819a6473c1835b25ea59e3d38914c98b374f0970b7e4c92181df928fca88")),
    (b'abc', 32, bytes.fromhex(
        "1c38f7c211ef233367b2420d04798fa4698080a8901021a795a1151775fe4da7")),
    (b'abcdef0123456789', 32, bytes.fromhex(
        "8f7e7b66791f0da0dbb5ec7c22ec637f79758c0a48170bfb7c4611bd304ece89")),
    (b'q128_qqqqqqqqqqqqqqqqqqqqqqqqqqqqqqqqqqqqqqqqqqqqqqqqqqqqqqqqqqqqqqqqqqqqqqqqqqqqqqqqqqqqqqqqqqqqqqqqqqqqqqqqqqqqqqqqqqqqqqqqqqqqqqqq', 32, bytes.fromhex(
        "72d5aa5ec810370d1f0013c0df2f1d65699494ee2a39f72e1716b1b964e1c642")),
    (b'a512_aaaaaaaaaaaaaaaaaaaaaaaaaaaaaaaaaaaaaaaaaaaaaaaaaaaaaaaaaaaaaaaaaaaaaaaaaaaaaaaaaaaaaaaaaaaaaaaaaaaaaaaaaaaaaaaaaaaaaaaaaaaaaaaaaaaaaaaaaaaaaaaaaaaaaaaaaaaaaaaaaaaaaaaaaaaaaaaaaaaaaaaaaaaaaaaaaaaaaaaaaaaaaaaaaaaaaaaaaaaaaaaaaaaaaaaaaaaaaaaaaaaaaaaaaaaaaaaaaaaaaaaaaaaaaaaaaaaaaaaaaaaaaaaaaaaaaaaaaaaaaaaaaaaaaaaaaaaaaaaaaaaaaaaaaaaaaaaaaaaaaaaaaaaaaaaaaaaaaaaaaaaaaaaaaaaaaaaaaaaaaaaaaaaaaaaaaaaaaaaaaaaaaaaaaaaaaaaaaaaaaaaaaaaaaaaaaaaaaaaaaaaaaaaaaaaaaaaaaaaaaaaaaaaaaaaaaaaaaaaaaaaaaaaaaaaaaaaaaaaaaaaaaaaaaaaa', 32, bytes.fromhex(
        "3b8e704fc48336aca4c2a12195b720882f2162a4b7b13a9c350db46f429b771b")),
    (b'', 128, bytes.fromhex(
        "8bcffd1a3cae24cf9cd7ab85628fd111bb17e3739d3b53f89580d217aa79526f1708354a76a402d3569d6a9d19ef3de4d0b991e4f54b9f20dcde9b95a66824cbdf6c1a963a1913d43fd7ac443a02fc5d9d8d77e2071b86ab114a9f34150954a7531da568a1ea8c760861c0cde2005afc2c114042ee7b5848f5303f0611cf297f")),
    (b'abc', 128, bytes.fromhex(
        "fe994ec51bdaa821598047b3121c149b364b178606d5e72bfbb713933acc29c186f316baecf7ea22212f2496ef3f785a27e84a40d8b299cec56032763eceeff4c61bd1fe65ed81decafff4a31d0198619c0aa0c6c51fca15520789925e813dcfd318b542f8799441271f4db9ee3b8092a7a2e8d5b75b73e28fb1ab6b4573c192")),
    (b'abcdef0123456789', 128, bytes.fromhex(
        "c9ec7941811b1e19ce98e21db28d22259354d4d0643e301175e2f474e030d32694e9dd5520dde93f3600d8edad94e5c364903088a7228cc9eff685d7eaac50d5a5a8229d083b51de4ccc3733917f4b9535a819b445814890b7029b5de805bf62b33a4dc7e24acdf2c924e9fe50d55a6b832c8c84c7f82474b34e48c6d43867be")),
    (b'q128_qqqqqqqqqqqqqqqqqqqqqqqqqqqqqqqqqqqqqqqqqqqqqqqqqqqqqqqqqqqqqqqqqqqqqqqqqqqqqqqqqqqqqqqqqqqqqqqqqqqqqqqqqqqqqqqqqqqqqqqqqqqqqqqq', 128, bytes.fromhex(
        "48e256ddba722053ba462b2b93351fc966026e6d6db493189798181c5f3feea377b5a6f1d8368d7453faef715f9aecb078cd402cbd548c0e179c4ed1e4c7e5b048e0a39d31817b5b24f50db58bb3720fe96ba53db947842120a068816ac05c159bb5266c63658b4f000cbf87b1209a225def8ef1dca917bcda79a1e42acd8069")),
    (b'a512_aaaaaaaaaaaaaaaaaaaaaaaaaaaaaaaaaaaaaaaaaaaaaaaaaaaaaaaaaaaaaaaaaaaaaaaaaaaaaaaaaaaaaaaaaaaaaaaaaaaaaaaaaaaaaaaaaaaaaaaaaaaaaaaaaaaaaaaaaaaaaaaaaaaaaaaaaaaaaaaaaaaaaaaaaaaaaaaaaaaaaaaaaaaaaaaaaaaaaaaaaaaaaaaaaaaaaaaaaaaaaaaaaaaaaaaaaaaaaaaaaaaaaaaaaaaaaaaaaaaaaaaaaaaaaaaaaaaaaaaaaaaaaaaaaaaaaaaaaaaaaaaaaaaaaaaaaaaaaaaaaaaaaaaaaaaaaaaaaaaaaaaaaaaaaaaaaaaaaaaaaaaaaaaaaaaaaaaaaaaaaaaaaaaaaaaaaaaaaaaaaaaaaaaaaaaaaaaaaaaaaaaaaaaaaaaaaaaaaaaaaaaaaaaaaaaaaaaaaaaaaaaaaaaaaaaaaaaaaaaaaaaaaaaaaaaaaaaaaaaaaaaaaaaaaaaa', 128, bytes.fromhex(
        "396962db47f749ec3b5042ce2452b619607f27fd3939ece2746a7614fb83a1d097f554df3927b084e55de92c7871430d6b95c2a13896d8a33bc48587b1f66d21b128a1a8240d5b0c26dfe795a1a842a0807bb148b77c2ef82ed4b6c9f7fcb732e7f94466c8b51e52bf378fba044a31f5cb44583a892f5969dcd73b3fa128816e")),
]

# RFC 9380 appendix K.1 (SHA-256) and K.2 (SHA-512), written down independently
XMD_RFC9380 = [
    ("sha256", b"QUUX-V01-CS02-with-expander-SHA256-128", b"", 32,
     bytes.fromhex("68a985b87eb6b46952128911f2a4412bbc302a9d759667f87f7a21d803f07235")),
    ("sha256", b"QUUX-V01-CS02-with-expander-SHA256-128", b"abc", 32,
     bytes.fromhex("d8ccab23b5985ccea865c6c97b6e5b8350e794e603b4b97902f53a8a0d605615")),
    ("sha512", b"QUUX-V01-CS02-with-expander-SHA512-256", b"", 32,
     bytes.fromhex("6b9a7312411d92f921c6f68ca0b6380730a1a4d982c507211a90964c394179ba")),
    ("sha512", b"QUUX-V01-CS02-with-expander-SHA512-256", b"abc", 32,
     bytes.fromhex("0da749f12fbe5483eb066a5f595055679b976e93abe9be6f0f6318bce7aca8dc")),
]
