"""Run oracle cases of one property in THIS interpreter and print the outcome as JSON.

  python -O -m vf.optrun <property> <cases.json>        cases: [{"sub": ..., "case": {...}}, ...]

Used by harness.run_cases_optimized to evaluate cases in an interpreter started with -O (assert statements
compiled away): validation written as `assert` disappears there, so a refusal turns into an acceptance."""
import json
import sys

from vf.harness import Ctx, Violation, import_repo, in_repo_frame


def main():
    prop, path = sys.argv[1], sys.argv[2]
    with open(path) as fh:
        jobs = json.load(fh)
    import_repo()
    mod = __import__(f"vf.props.{prop.lower()}", fromlist=["x"])
    ctx = Ctx(prop, "optrun", "quick", 0)
    out = []
    for job in jobs:
        try:
            mod.ORACLES[job["sub"]](ctx, job["case"])
        except Violation as v:
            out.append(v.as_dict())
        except Exception as e:  # noqa
            if not in_repo_frame(e.__traceback__):
                raise
            out.append(Violation(prop, job["sub"], "exception:" + type(e).__name__, job["case"],
                                 f"unexpected {type(e).__name__}: {e}"[:400]).as_dict())
    print(json.dumps({"violations": out, "evaluations": ctx.evaluations, "optimize": sys.flags.optimize},
                     default=str))


if __name__ == "__main__":
    main()
