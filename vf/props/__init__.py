ALL_PROPS = ["C%02d" % i for i in range(1, 21)]
