"""BLS12-381 glue shared by C01-C04, C09-C11, C17: library <-> model point conversion, point
descriptors (JSON-able) and the Hypothesis strategies that construct the interesting classes
of points (subgroup, cofactor torsion, small order, zero-component y, y at the sign boundary)."""
import functools

from hypothesis import strategies as st

from vf.model import bls12381 as B
from vf.model import nt
from vf.model.curves import BLS
from vf.model.params import BLS_H1, BLS_H2
from vf.props._curve_common import mod
from vf.strategies import scalar_in, uniform_int

P, R = B.P, B.R
F1, F2 = B.F1, B.F2


def OB():
    return mod("optimized_bls12_381")


# ---- JSON forms -------------------------------------------------------------------------------
def jp(pt):
    if pt is None:
        return None
    return [list(c) if isinstance(c, tuple) else c for c in pt]


def unjp(j):
    if j is None:
        return None
    return tuple(tuple(c) if isinstance(c, list) else c for c in j)


def jel(e):
    return list(e) if isinstance(e, tuple) else e


def unjel(j):
    return tuple(j) if isinstance(j, list) else j


INF_REPS = {
    "G1": [(1, 1, 0), (0, 1, 0), (5, 7, 0), (P - 1, 0, 0), (0, 0, 0)],
    "G2": [((1, 0), (1, 0), (0, 0)), ((0, 0), (1, 0), (0, 0)), ((5, 3), (7, 11), (0, 0)),
           ((0, P - 1), (0, 0), (0, 0)), ((0, 0), (0, 0), (0, 0))],
}


def lib_point(g, pt, scale=None, inf_rep=0, fq_coeffs=False):
    """Model point -> optimized_bls12_381 projective triple."""
    m = OB()
    if pt is None:
        return m.pt(g, None, inf_rep=INF_REPS[g][inf_rep % len(INF_REPS[g])])
    return m.pt(g, pt, scale=scale, fq_coeffs=fq_coeffs)


def back(g, libpt):
    return OB().back(g, libpt)


# ---- constructed points (cached, deterministic) -------------------------------------------------
@functools.lru_cache(maxsize=4096)
def seed_point(g, seed):
    """A curve point found from a seed: essentially a random point of E(Fp) / E'(Fp2), hence with
    a non-trivial cofactor component (probability 1 - 1/h)."""
    return BLS.point_from_seed(g, seed)


@functools.lru_cache(maxsize=4096)
def torsion_point(g, seed):
    """r * seed_point: a point of the cofactor subgroup (order divides h)."""
    return BLS.mul(g, seed_point(g, seed), R)


SMALL_ORDERS = {"G1": (3, 11), "G2": (13, 23)}


@functools.lru_cache(maxsize=256)
def small_point(g, ell, seed):
    for k in range(50):
        Q = B.small_order_point(g, ell, seed + 1000 * k)
        if Q is not None:
            return Q
    raise AssertionError("no point of order %d found" % ell)


@functools.lru_cache(maxsize=4096)
def kg(g, k):
    return BLS.mul(g, BLS.G1 if g == "G1" else BLS.G2, k)


@functools.lru_cache(maxsize=2048)
def g2_zero_component(c):
    """A point of E'(Fp2) whose y is purely real or purely imaginary: choose x = a + c i with
    Im(x^3 + 4 + 4i) = 3 a^2 c - c^3 + 4 = 0; then x^3 + b2 is in Fp, and its square root in Fp2 is
    (t, 0) or (0, t).  Returns (point, 'y_im=0' | 'y_re=0') or None if a^2 has no root."""
    c %= P
    if c == 0:
        return None
    v = (pow(c, 3, P) - 4) * nt.inv_mod(3 * c, P) % P
    a = nt.sqrt_mod(v, P)
    if a is None:
        return None
    x = (a, c)
    rhs = F2.add(F2.mul(F2.mul(x, x), x), B.B2)
    assert rhs[1] == 0
    y = BLS.fp2_sqrt(rhs)
    assert y is not None and F2.mul(y, y) == rhs
    kind = "y_im=0" if y[1] == 0 else "y_re=0"
    return (x, y), kind


@functools.lru_cache(maxsize=256)
def g1_boundary_y(j):
    """A point of E(Fp) whose y is as close as possible to the sign boundary (p-1)/2 | (p+1)/2:
    y = (p-1)/2 - j for even j//1 ... tries y values around the boundary until y^2 - 4 is a cube."""
    half = (P - 1) // 2
    y = (half - j // 2) if j % 2 == 0 else (half + 1 + j // 2)
    x = nt.cbrt_mod((y * y - 4) % P, P)
    if x is None:
        return None
    assert (y * y - x ** 3 - 4) % P == 0
    return (x, y)


@functools.lru_cache(maxsize=512)
def g2_boundary_y(which, seed):
    """A point of E'(Fp2) whose y sits exactly at the sign boundary of the ZCash ordering:
    which = 0/1: y_im = (p-1)/2 / (p+1)/2 (y_re from the seed); which = 2/3: y_im = 0 and
    y_re = (p-1)/2 / (p+1)/2.  x is a cube root of y^2 - b2 in Fp2 (exists for a third of the y)."""
    half = (P - 1) // 2
    for k in range(200):
        if which < 2:
            y = ((seed * 7919 + k) % P, half + which)
        else:
            if k:
                return None
            y = (half + (which - 2), 0)
        x = BLS.fp2_cbrt(F2.sub(F2.mul(y, y), B.B2))
        if x is not None:
            assert BLS.on_curve("G2", (x, y))
            return (x, y)
    return None


def describe(g, pt):
    """Classes a point belongs to (labels)."""
    if pt is None:
        return ["inf"]
    out = []
    out.append("subgroup" if BLS.mul(g, pt, R) is None else "non_subgroup")
    if g == "G2":
        y = pt[1]
        if y[1] == 0:
            out.append("y_im=0")
        if y[0] == 0:
            out.append("y_re=0")
        if pt[0][0] == 0 or pt[0][1] == 0:
            out.append("x_component=0")
        half = (P - 1) // 2
        if y[1] in (half, half + 1) or (y[1] == 0 and y[0] in (half, half + 1)):
            out.append("y_at_boundary")
    else:
        if pt[0] == 0:
            out.append("x=0")
        if abs(pt[1] - (P - 1) // 2) <= 4:
            out.append("y_at_boundary")
    return out


# ---- strategies -----------------------------------------------------------------------------------
def _scalar():
    return scalar_in(1, R - 1, extra=(2, 3, R - 2))


def point_desc(g, subgroup_only=False):
    """Strategy of dicts {'g', 'kind', 'pt'} with pt the affine model point (JSON form)."""
    gen = BLS.G1 if g == "G1" else BLS.G2
    seeds = st.one_of(st.integers(0, 400), uniform_int(0, P - 1))

    def mk(kind, pt):
        return {"g": g, "kind": kind, "pt": jp(pt)}

    s_kg = _scalar().map(lambda k: mk("kG", BLS.mul(g, gen, k)))
    s_inf = st.just(mk("inf", None))
    if subgroup_only:
        return st.one_of(s_kg, s_kg, s_kg, s_inf)
    s_seed = seeds.map(lambda s: mk("curve_point", seed_point(g, s)))
    s_tors = seeds.map(lambda s: mk("torsion", torsion_point(g, s)))
    s_mix = st.tuples(st.integers(1, 1 << 64), st.integers(0, 60)).map(
        lambda t: mk("kG+T", BLS.add(g, kg(g, t[0]), torsion_point(g, t[1]))))
    s_small = st.tuples(st.sampled_from(SMALL_ORDERS[g]), st.integers(1, 6), st.integers(1, 30)).map(
        lambda t: mk("small_order_%d" % t[0], BLS.mul(g, small_point(g, t[0], t[1]), 1 + t[2] % (t[0] - 1))))
    parts = [s_kg, s_kg, s_seed, s_tors, s_mix, s_small, s_inf]
    if g == "G2":
        def zc(c):
            r = g2_zero_component(c)
            k = 0
            while r is None:
                k += 1
                r = g2_zero_component(c + k)
            return mk(r[1], r[0])
        parts.append(st.one_of(st.integers(1, 300), uniform_int(1, P - 1)).map(zc))
        parts.append(st.integers(1, 300).map(zc).map(
            lambda d: mk(d["kind"] + ":neg", BLS.neg("G2", unjp(d["pt"])))))
        bnd = [(w, sd) for w in (0, 1, 2, 3) for sd in range(6) if g2_boundary_y(w, sd) is not None]
        parts.append(st.sampled_from(bnd).map(lambda t: mk("y_boundary", g2_boundary_y(*t))))
    else:
        valid_j = [j for j in range(0, 48) if g1_boundary_y(j) is not None]
        parts.append(st.sampled_from(valid_j).map(lambda j: mk("y_boundary", g1_boundary_y(j))))
        parts.append(st.sampled_from([(0, 2), (0, P - 2)]).map(lambda pt: mk("x=0", pt)))
    return st.one_of(*parts)


def scale_for(g):
    """Non-zero projective scaling factor (model value) in JSON form; 1 = unscaled."""
    if g == "G1":
        return st.one_of(st.just(1), st.sampled_from([2, P - 1, (P + 1) // 2]), uniform_int(1, P - 1))
    nz = st.tuples(uniform_int(0, P - 1), uniform_int(0, P - 1)).filter(lambda t: t != (0, 0)).map(list)
    return st.one_of(st.just([1, 0]), st.sampled_from([[0, 1], [P - 1, 0], [1, 1], [0, P - 1]]), nz)


# ---- pairing monitor --------------------------------------------------------------------------------------
_PM = {"installed": False, "depth": 0, "observers": []}


def install_pairing_monitor(observer):
    """Call observer(Q, P) (library point objects) once for every OUTERMOST evaluation of the optimized
    BLS12-381 `pairing` or `miller_loop`, whoever calls it: the two functions are wrapped in their defining
    module and every other binding of them in a loaded py_ecc module (`from ... import pairing`) is rebound, so
    a verifier that is refactored to call miller_loop directly, or through another alias, is still observed."""
    import sys
    import py_ecc.bls.ciphersuites  # noqa: F401 - make sure the consumers are loaded before rebinding
    import py_ecc.optimized_bls12_381.optimized_pairing as op
    _PM["observers"].append(observer)
    if _PM["installed"]:
        return
    originals = {}
    for name in ("pairing", "miller_loop"):
        fn = getattr(op, name, None)
        if callable(fn):
            originals[name] = fn
    if not originals:
        raise RuntimeError("py_ecc.optimized_bls12_381.optimized_pairing has neither pairing nor miller_loop")

    def wrap(real):
        def monitored(Q, Pt, *a, **k):
            outer = _PM["depth"] == 0
            if outer:
                for ob in _PM["observers"]:
                    ob(Q, Pt)
            _PM["depth"] += 1
            try:
                return real(Q, Pt, *a, **k)
            finally:
                _PM["depth"] -= 1
        monitored.__wrapped__ = real
        monitored.__name__ = getattr(real, "__name__", "pairing")
        return monitored

    wrapped = {id(fn): wrap(fn) for fn in originals.values()}
    for mname, mod_ in list(sys.modules.items()):
        if mod_ is None or not (mname == "py_ecc" or mname.startswith("py_ecc.")):
            continue
        for attr, val in list(vars(mod_).items()):
            if id(val) in wrapped and val in originals.values():
                setattr(mod_, attr, wrapped[id(val)])
    _PM["installed"] = True
