"""Glue between py_ecc curve modules and the model curves."""
import importlib

from vf.model import curves as mc
from vf.props import _fields_common as fc

MODULES = {
    "bn128": ("py_ecc.bn128", "bn128", False),
    "optimized_bn128": ("py_ecc.optimized_bn128", "bn128", True),
    "bls12_381": ("py_ecc.bls12_381", "bls12_381", False),
    "optimized_bls12_381": ("py_ecc.optimized_bls12_381", "bls12_381", True),
}
GROUPS = ("G1", "G2", "G12")


class Mod:
    """One curve module of the library with conversions to/from model points."""

    def __init__(self, name):
        path, curve, opt = MODULES[name]
        self.name, self.opt = name, opt
        self.m = importlib.import_module(path)
        self.C = mc.CURVES[curve]
        self.FQ, self.FQ2, self.FQ12 = self.m.FQ, self.m.FQ2, self.m.FQ12
        self.cls = {"G1": self.FQ, "G2": self.FQ2, "G12": self.FQ12}
        self.bcoef = {"G1": self.m.b, "G2": self.m.b2, "G12": self.m.b12}

    def el(self, g, v, fq_coeffs=False):
        """fq_coeffs: build extension elements from base-field OBJECTS instead of ints (the constructors
        accept Sequence[IntOrFQ]; the two forms denote the same element)."""
        if g == "G1":
            return self.FQ(v)
        if fq_coeffs:
            return self.cls[g]([self.FQ(c) for c in v])
        return self.cls[g](list(v))

    def pt(self, g, P, scale=None, inf_rep=None, fq_coeffs=False):
        """Model point -> library point.  For optimized modules `scale` (a model field element,
        non-zero) multiplies all three coordinates; `inf_rep` picks a representative of infinity
        as a triple of model values."""
        if not self.opt:
            if P is None:
                return None
            return (self.el(g, P[0], fq_coeffs), self.el(g, P[1], fq_coeffs))
        F = self.C.group(g)[0]
        if P is None:
            if inf_rep is None:
                return (self.cls[g].one(), self.cls[g].one(), self.cls[g].zero())
            return tuple(self.el(g, v) for v in inf_rep)
        s = F.one if scale is None else scale
        return (self.el(g, F.mul(P[0], s), fq_coeffs), self.el(g, F.mul(P[1], s), fq_coeffs), self.el(g, s, fq_coeffs))

    def back(self, g, pt):
        """Library point -> model point (None = infinity)."""
        F = self.C.group(g)[0]
        if not self.opt:
            if pt is None:
                return None
            return (fc.val(pt[0]), fc.val(pt[1]))
        x, y, z = (fc.val(c) for c in pt)
        if F.is_zero(z):
            return None
        zi = F.inv(z)
        return (F.mul(x, zi), F.mul(y, zi))

    def well_formed(self, g, pt):
        """Right container shape and element classes, coefficients reduced."""
        cls = self.cls[g]
        if not self.opt:
            if pt is None:
                return True
            return isinstance(pt, tuple) and len(pt) == 2 and all(fc.reduced_ok(c, cls, self.C.p) for c in pt)
        return isinstance(pt, tuple) and len(pt) == 3 and all(fc.reduced_ok(c, cls, self.C.p) for c in pt)


_mods = {}


def mod(name):
    if name not in _mods:
        _mods[name] = Mod(name)
    return _mods[name]


def jpt(P):
    """Model point -> JSON."""
    if P is None:
        return None
    return [list(c) if isinstance(c, tuple) else c for c in P]


def unjpt(j):
    if j is None:
        return None
    return tuple(tuple(c) if isinstance(c, list) else c for c in j)
