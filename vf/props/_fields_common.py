"""Instantiating py_ecc's field classes over arbitrary primes / moduli, and conversions."""
import itertools

from vf.model import fields as mf
from vf.model import params


def lib_mod(impl):
    if impl == "ref":
        import py_ecc.fields.field_elements as m
    else:
        import py_ecc.fields.optimized_field_elements as m
    return m


_cache = {}


def make(impl, p, mc2=None, mc12=None):
    """(FQ, FQ2, FQ12) subclasses of the reference or optimized base classes, built the same
    way py_ecc/fields/__init__.py builds the real ones."""
    key = (impl, p, tuple(mc2) if mc2 else None, tuple(mc12) if mc12 else None)
    if key in _cache:
        return _cache[key]
    m = lib_mod(impl)
    FQ = type(f"{impl}_FQ_{p}", (m.FQ,), {"field_modulus": p})
    FQP = type(f"{impl}_FQP_{p}", (m.FQP,), {"field_modulus": p})
    FQ2 = FQ12 = None
    if mc2 is not None:
        FQ2 = type(f"{impl}_FQ2_{p}", (m.FQ2, FQP),
                   {"field_modulus": p, "FQ2_MODULUS_COEFFS": tuple(mc2)})
    if mc12 is not None:
        FQ12 = type(f"{impl}_FQ12_{p}", (m.FQ12, FQP),
                    {"field_modulus": p, "FQ12_MODULUS_COEFFS": tuple(mc12)})
    _cache[key] = (FQ, FQ2, FQ12)
    return _cache[key]


def real(impl, curve):
    """The library's own classes for a real curve."""
    import py_ecc.fields as f
    pre = ("" if impl == "ref" else "optimized_") + curve
    return getattr(f, pre + "_FQ"), getattr(f, pre + "_FQ2"), getattr(f, pre + "_FQ12")


REAL = {
    "bn128": (params.BN_P, (1, 0), params.BN_FQ12_MC),
    "bls12_381": (params.BLS_P, (1, 0), params.BLS_FQ12_MC),
}


def model_field(p, mc=None):
    return mf.Fp(p) if mc is None else mf.Ext(p, mc)


def val(x):
    """Canonical value of a library element: int for FQ, tuple of ints for FQP."""
    if hasattr(x, "coeffs"):
        return tuple(int(c) for c in x.coeffs)
    return int(x.n)


def reduced_ok(x, cls, p):
    """Is the element stored in canonical reduced form and of the right class?"""
    if type(x) is not cls:
        return False
    if hasattr(x, "coeffs"):
        if len(x.coeffs) != cls.degree:
            return False
        for c in x.coeffs:
            n = c if isinstance(c, int) else getattr(c, "n", None)
            if type(n) is not int or not 0 <= n < p:
                return False
        return True
    return type(x.n) is int and 0 <= x.n < p


def irreducible_quadratics(p):
    return [(c0, c1) for c0 in range(p) for c1 in range(p) if mf.is_irreducible((c0, c1), p)]


def neg_form(mc, p):
    """The same modulus with non-zero coefficients written negatively (as the real
    modules do: -18, -2)."""
    return tuple(c - p if c else 0 for c in mc)


def find_deg12(p, want=2):
    """Deterministically find irreducible degree-12 moduli over GF(p): first of the sparse
    shape w^12 + a w^6 + b, then dense ones from a fixed LCG."""
    out = []
    for a in range(p):
        for b in range(1, p):
            mc = (b, 0, 0, 0, 0, 0, a, 0, 0, 0, 0, 0)
            if mf.is_irreducible(mc, p):
                out.append(mc)
                break
        if out:
            break
    x = 12345
    while len(out) < want:
        cs = []
        for _ in range(12):
            x = (x * 1103515245 + 12345) % (2 ** 31)
            cs.append((x >> 8) % p)
        if cs[0] and mf.is_irreducible(tuple(cs), p):
            out.append(tuple(cs))
    return out


def all_elements(p, d):
    for t in itertools.product(range(p), repeat=d):
        yield t
