"""Shared by C05 and C12: the four pairing implementations with model-side point construction."""
import functools
import importlib

from hypothesis import strategies as st

from vf.model import curves as mc
from vf.props import _fields_common as fc
from vf.props._curve_common import mod
from vf.strategies import scalar_in, uniform_int

PAIRING_FILE = {
    "bn128": "py_ecc.bn128.bn128_pairing",
    "optimized_bn128": "py_ecc.optimized_bn128.optimized_pairing",
    "bls12_381": "py_ecc.bls12_381.bls12_381_pairing",
    "optimized_bls12_381": "py_ecc.optimized_bls12_381.optimized_pairing",
}
MODULES = tuple(PAIRING_FILE)
CURVE_OF = {"bn128": "bn128", "optimized_bn128": "bn128", "bls12_381": "bls12_381",
            "optimized_bls12_381": "bls12_381"}
REF_OF = {"bn128": "bn128", "bls12_381": "bls12_381"}
OPT_OF = {"bn128": "optimized_bn128", "bls12_381": "optimized_bls12_381"}


def pm(name):
    return importlib.import_module(PAIRING_FILE[name])


@functools.lru_cache(maxsize=4096)
def kG(curve, g, k):
    C = mc.CURVES[curve]
    return C.mul(g, C.G1 if g == "G1" else C.G2, k)


def lib_pt(name, g, P, scale=None, inf_rep=None):
    return mod(name).pt(g, P, scale=scale, inf_rep=inf_rep)


def coeffs(x):
    return [int(c) for c in x.coeffs]


def one12(name):
    return mod(name).FQ12.one()


_e0 = {}


def e0(name):
    """pairing(G2, G1) of this module, once per process."""
    if name not in _e0:
        m = mod(name)
        _e0[name] = pm(name).pairing(m.m.G2, m.m.G1)
    return _e0[name]


def _family(r):
    from vf.model import params
    z = abs(params.BLS_X) if r == params.BLS_R else params.BN_T
    lam = (z * z - 1) % r if r == params.BLS_R else (36 * z ** 3 + 18 * z * z + 6 * z + 1) % r
    out = set()
    for base in (z, z * z, z * z - 1, lam, 6 * z + 2):
        for k in (1, 2, 31415926535):
            v = (k * base) % r
            out.update((v, r - v))
    out.update(((r - 1) // 2, (r + 1) // 2))
    from vf.model import nt
    out.update(nt.endo_scalars(r))
    return sorted(v for v in out if 0 < v < r)


def s_scalar(r):
    """0, r (the identity), boundary values, every bit length, uniform, and scalars algebraically related
    to the curve family parameter."""
    return st.one_of(st.sampled_from([0, 1, 2, 3, r - 1, r - 2, r]), scalar_in(1, r - 1), uniform_int(1, r - 1),
                     st.sampled_from(_family(r)))


def s_scale(curve, g, opt):
    """Projective scaling (JSON form) for optimized modules; None for reference ones."""
    if not opt:
        return st.none()
    p = mc.CURVES[curve].p
    if g == "G1":
        return st.one_of(st.none(), st.sampled_from([2, p - 1]), uniform_int(1, p - 1))
    nz = st.tuples(uniform_int(0, p - 1), uniform_int(0, p - 1)).filter(lambda t: t != (0, 0)).map(list)
    # z values in a relation with the twist: Fp-multiples of the twist constant xi (9 + u for BN254, 1 + u for
    # BLS12-381), of its conjugate and of its inverse - after twisting, such a z has a vanishing coefficient in
    # the Fp12 embedding (z0 - 9 z1 resp. z0 - z1) - and purely real / purely imaginary z
    xi = (9, 1) if curve == "bn128" else (1, 1)
    n_ = (xi[0] * xi[0] + xi[1] * xi[1]) % p
    inv_xi = (xi[0] * pow(n_, -1, p) % p, -xi[1] * pow(n_, -1, p) % p)
    rel = []
    for base in (xi, (xi[0], p - xi[1]), inv_xi, (xi[1], xi[0]), (xi[0], 0), (0, xi[0])):
        for k in (1, 5, p - 1, 31415926535897932384626433):
            rel.append([base[0] * k % p, base[1] * k % p])
    return st.one_of(st.none(), st.sampled_from([[0, 1], [p - 1, 0], [1, 1]]), nz, st.sampled_from(rel))


def unscale(s):
    return tuple(s) if isinstance(s, list) else s
