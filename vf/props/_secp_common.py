"""Tiny-curve substitution for py_ecc.secp256k1 (shared by C18 and C19)."""
import contextlib

from vf.model import ec, nt
from vf.model.fields import Fp
from vf.model.secp import Curve


def tiny_curves(lo, hi, need_3mod4=True):
    """All prime-order curves y^2 = x^3 + b over primes lo <= p < hi (p = 3 mod 4 if asked)."""
    out = []
    for p in nt.primes_below(hi):
        if p < lo or p < 5 or (need_3mod4 and p % 4 != 3):
            continue
        F = Fp(p)
        for b in range(1, p):
            pts = ec.points(F, b)
            n = len(pts) + 1
            if n < 5 or not nt.is_prime(n):
                continue
            out.append((p, b, n, pts[0]))
    return out


@contextlib.contextmanager
def patched(p, b, n, g):
    """Replace the module-level curve constants; always restored."""
    import py_ecc.secp256k1.secp256k1 as m
    saved = {k: getattr(m, k) for k in ("P", "N", "A", "B", "Gx", "Gy", "G")}
    try:
        m.P, m.N, m.A, m.B, m.Gx, m.Gy, m.G = p, n, 0, b, g[0], g[1], (g[0], g[1])
        yield m, Curve(p, n, b, g)
    finally:
        for k, v in saved.items():
            setattr(m, k, v)


def to_lib(P):
    return (0, 0) if P is None else (P[0], P[1])


def from_lib(t):
    return None if tuple(t) == (0, 0) else (t[0], t[1])
