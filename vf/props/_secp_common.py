"""Tiny-curve substitution for py_ecc.secp256k1 (shared by C18 and C19)."""
import contextlib

from vf.model import ec, nt
from vf.model.fields import Fp
from vf.model.secp import Curve


def tiny_curves(lo, hi, need_3mod4=True):
    """All prime-order curves y^2 = x^3 + b over primes lo <= p < hi (p = 3 mod 4 if asked)."""
    out = []
    for p in nt.primes_below(hi):
        if p < lo or p < 5 or (need_3mod4 and p % 4 != 3):
            continue
        F = Fp(p)
        for b in range(1, p):
            pts = ec.points(F, b)
            n = len(pts) + 1
            if n < 5 or not nt.is_prime(n):
                continue
            out.append((p, b, n, pts[0]))
    return out


@contextlib.contextmanager
def patched(p, b, n, g):
    """Replace the module-level curve constants; always restored."""
    import py_ecc.secp256k1.secp256k1 as m
    saved = {k: getattr(m, k) for k in ("P", "N", "A", "B", "Gx", "Gy", "G")}
    try:
        m.P, m.N, m.A, m.B, m.Gx, m.Gy, m.G = p, n, 0, b, g[0], g[1], (g[0], g[1])
        yield m, Curve(p, n, b, g)
    finally:
        for k, v in saved.items():
            setattr(m, k, v)


def to_lib(P):
    return (0, 0) if P is None else (P[0], P[1])


def from_lib(t):
    return None if tuple(t) == (0, 0) else (t[0], t[1])


def substitution_supported():
    """The tiny-curve tier rests on one premise: the module reads its curve from the module-level names P, N, A, B,
    Gx, Gy, G and nowhere else.  A (correct) optimisation that bakes the real prime into the code - a special-form
    reduction for 2^256 - 2^32 - 977, precomputed tables - breaks that premise without breaking the property, so
    the tier must then be skipped, not reported.  Heuristic: no function of the module carries an integer constant
    of 128 bits or more, and no other module-level integer (or tuple/list/dict of integers) that large exists."""
    import types
    import py_ecc.secp256k1.secp256k1 as m
    known = {"P", "N", "A", "B", "Gx", "Gy", "G"}
    big = lambda v: isinstance(v, int) and not isinstance(v, bool) and abs(v) >= 1 << 128   # noqa: E731

    def holds_big(v, depth=0):
        if big(v):
            return True
        if depth < 2 and isinstance(v, (tuple, list, set, frozenset)):
            return any(holds_big(x, depth + 1) for x in v)
        if depth < 2 and isinstance(v, dict):
            return any(holds_big(x, depth + 1) for x in list(v.values())[:64]) or any(holds_big(x, depth + 1) for x in list(v)[:64])
        return False

    def code_consts(code):
        for c in code.co_consts:
            if isinstance(c, types.CodeType):
                yield from code_consts(c)
            else:
                yield c
    for name, v in vars(m).items():
        if name.startswith("__"):
            continue
        if name not in known and holds_big(v):
            return False, f"module-level constant {name} holds an integer of 128 bits or more"
        if isinstance(v, types.FunctionType) and v.__module__ == m.__name__:
            for c in code_consts(v.__code__):
                if holds_big(c):
                    return False, f"function {name} carries an integer constant of 128 bits or more"
    return True, ""
