"""Shared pieces of the BLS signature-scheme checks (C01-C04, C09)."""
from hypothesis import strategies as st

from vf.model import bls12381 as B
from vf.model import blssig
from vf.strategies import msg as s_msg
from vf.strategies import scalar_in

R = B.R
SUITES = ("basic", "aug", "pop")


def lib_suite(name):
    import py_ecc.bls as bls
    return {"basic": bls.G2Basic, "aug": bls.G2MessageAugmentation, "pop": bls.G2ProofOfPossession}[name]


def s_sk():
    return scalar_in(1, R - 1, extra=(2, 3, R - 2))


def s_suite():
    return st.sampled_from(SUITES)


BAD_SKS = [0, R, R + 1, -1, -R, 1 << 255, 1 << 256, 2 * R, -(1 << 255)]
BAD_SK_OBJECTS = ["1", 1.0, None, b"\x01", [1], (1,), 1 + 0j]
BOUNDARY_SKS = [1, 2, R - 2, R - 1]
BOUNDARY_MSG_LENS = [0, 1, 55, 56, 63, 64, 65]


def msg_class(m: bytes) -> str:
    n = len(m)
    if n == 0:
        return "empty"
    if n < 56:
        return "<56"
    if n <= 64:
        return "56-64"
    if n <= 1024:
        return "65-1024"
    return ">1KiB"


def sk_class(sk: int) -> str:
    if sk in BOUNDARY_SKS:
        return "boundary"
    b = sk.bit_length()
    return "<128b" if b < 128 else ("128-199b" if b < 200 else ">=200b")
