"""Shared pieces of the BLS signature-scheme checks (C01-C04, C09)."""
from hypothesis import strategies as st

from vf.model import bls12381 as B
from vf.model import blssig
from vf.strategies import msg as s_msg
from vf.strategies import scalar_in

R = B.R
SUITES = ("basic", "aug", "pop")


def lib_suite(name):
    import py_ecc.bls as bls
    return {"basic": bls.G2Basic, "aug": bls.G2MessageAugmentation, "pop": bls.G2ProofOfPossession}[name]


_derived = {}


def derived_suite(suite, tag, pop_tag=b"APP-POP"):
    """An application-specific ciphersuite: the stock class with its domain tags overridden, which is how this
    API is given another tag.  None if the library refuses to be subclassed."""
    key = (suite, tag, pop_tag)
    if key not in _derived:
        base = lib_suite(suite)
        attrs = {"DST": tag}
        if suite == "pop":
            attrs["POP_TAG"] = pop_tag
        try:
            _derived[key] = type("App" + base.__name__, (base,), attrs)
        except TypeError:
            _derived[key] = None
    return _derived[key]


APP_TAGS = (b"APP-V01-CS01-with-BLS12381G2_XMD:SHA-256_SSWU_RO_", b"", b"x", b"BLS_SIG_BLS12381G2_XMD:SHA-256_SSWU_RO_NUL_X",
            b"t" * 255)

X = 0xD201000000010000                 # |x| of BLS12-381; r = x^4 - x^2 + 1
LAMBDA = (X * X - 1) % R               # a cube root of unity modulo r (the GLV eigenvalue on G1)
assert (LAMBDA * LAMBDA + LAMBDA + 1) % R == 0


def special_scalars():
    """Scalars in an algebraic relation with the curve parameter: the shapes on which scalar
    decompositions (GLV / GLS), windowing and folding n -> r - n have their corner cases."""
    out = set()
    for base in (X, X * X, X * X - 1, X * X + 1, X ** 3 % R, LAMBDA, (LAMBDA + 1) % R, X * X * X * X % R):
        for k in (1, 2, 3, 7, 31415926535, (1 << 64) - 1):
            v = (k * base) % R
            out.update((v, R - v, (v + 1) % R, (v - 1) % R))
    from vf.model import nt
    # sparse keys: a set bit followed by 64 or more zero bits
    out.update(((1 << 200) + (1 << 100) + 12345, 3 * (1 << 90) + 7, 5 << 128, (1 << 254) + (1 << 64), (1 << 130) + 1,
                (1 << 250) + (1 << 180) + (1 << 90) + 1))
    out.update(nt.endo_scalars(R))        # lambda, lambda + 1, 2(lambda + 1), 1 - lambda ... for both eigenvalues
    out.update(((R - 1) // 2, (R + 1) // 2, (R - 1) // 3, 2 * (R - 1) // 3, R // 2 + X * X, (R - 1) // 2 - X * X))
    return sorted(v for v in out if 0 < v < R)


SPECIAL_SKS = special_scalars()


def s_sk():
    return st.one_of(scalar_in(1, R - 1, extra=(2, 3, R - 2)), scalar_in(1, R - 1, extra=(2, 3, R - 2)),
                     scalar_in(1, R - 1, extra=(2, 3, R - 2)), st.sampled_from(SPECIAL_SKS))


def s_suite():
    return st.sampled_from(SUITES)


# the last ones have more than 4300 decimal digits: CPython refuses to convert them to a decimal string, so an
# error message that formats the key raises ValueError before the ValidationError exists
BAD_SKS = [0, R, R + 1, -1, -R, 1 << 255, 1 << 256, 2 * R, -(1 << 255)]
# (named, because neither JSON nor repr() can carry them)
HUGE_BAD_SKS = {"2**16384": 1 << 16384, "-(10**5000)": -(10 ** 5000), "r<<20000": R << 20000, "2**14000": 1 << 14000}
class _Indexable:
    """Not an int, but usable as one through __index__ (key handles, numpy-like scalars)."""
    def __init__(self, v):
        self.v = v

    def __index__(self):
        return self.v

    def __repr__(self):
        return f"_Indexable({self.v})"


class _IntConvertible:
    def __init__(self, v):
        self.v = v

    def __int__(self):
        return self.v

    def __repr__(self):
        return f"_IntConvertible({self.v})"


BAD_SK_OBJECTS = ["1", 1.0, None, b"\x01", [1], (1,), 1 + 0j, _Indexable(5), _IntConvertible(7), _Indexable(12345678901234567890)]
BOUNDARY_SKS = [1, 2, R - 2, R - 1]
BOUNDARY_MSG_LENS = [0, 1, 55, 56, 63, 64, 65]
_SPECIAL_SET = set(SPECIAL_SKS)


def msg_class(m: bytes) -> str:
    n = len(m)
    if n == 0:
        return "empty"
    if n < 56:
        return "<56"
    if n <= 64:
        return "56-64"
    if n <= 1024:
        return "65-1024"
    return ">1KiB"


def sk_class(sk: int) -> str:
    if sk in BOUNDARY_SKS:
        return "boundary"
    if sk in _SPECIAL_SET:
        return "curve_parameter_related"
    b = sk.bit_length()
    return "<128b" if b < 128 else ("128-199b" if b < 200 else ">=200b")
