"""C01 - every honestly produced signature and possession proof verifies; bad keys are refused."""
from hypothesis import strategies as st

from vf.harness import HarnessError, Task, drive, hx, run_cases_optimized, unhx
from vf.model import bls12381 as B
from vf.model import blssig
from vf.props import _sig_common as sc
from vf.strategies import msg as s_msg
from vf.strategies import sized_binary

R = B.R
RULE = ("(suite, sk, message) from Hypothesis - sk in {1, 2, r-2, r-1}, 2^k-1 / 2^k / 2^k+1 for every k, "
        "uniform 255-bit; messages empty, 1 byte, lengths 55/56/63/64/65, binary, (thorough) multi-KiB - "
        "through the public API only: Verify(SkToPk(sk), m, Sign(sk, m)) is True, PopVerify(SkToPk(sk), "
        "PopProve(sk)) is True, outputs are bytes of length 48/96 and SkToPk decodes (model decoder) to sk*G1; "
        "every rejected neighbour {0, r, r+1, -1, -r, 2^255, 2^256, 2r} and non-integer key x {SkToPk, Sign, "
        "PopProve} raises ValidationError; KeyGen(IKM, key_info) lies in [1, r-1], signs and verifies. "
        "Non-trivial = sk of >= 200 bits or a listed boundary, or a message that is empty / >= 56 bytes / "
        "non-ASCII, or a distinct (bad value, entry point); distinct by (suite, sk, sha256(msg))")
ASSUMPTIONS = ["model decoder and model scalar multiplication (vf/model/bls12381.py) for the SkToPk side "
               "condition; everything else is a round trip through the library itself"]
ENGINE = "hypothesis"
TECHNIQUE = ("property-based testing (Hypothesis): sign/verify and prove/verify round trips through the public API with an independent-model side condition on the public key")
_REQ = ["reject:huge_int", "python_-O:cases", "rt:keyword_arguments", "reject:keyword_argument", "rt:sk=curve_parameter_related", "rt:basic", "rt:aug", "rt:pop", "pop", "reject:int", "reject:type", "reject:numeric_twin_after_use", "keygen", "rt:sk=boundary",
        "rt:sk>=200b", "rt:msg=empty", "rt:msg=56-64", "rt:msg=65-1024"]
REQUIRED_LABELS = {"quick": _REQ, "thorough": _REQ + ["rt:msg=>1KiB"]}


def selfcheck():
    B.selfcheck()


from vf.harness import kwcall  # noqa: E402


def o_roundtrip(ctx, case):
    suite, sk, msg = case["suite"], case["sk"], unhx(case["msg"])
    ctx.begin("roundtrip", case)
    S = sc.lib_suite(suite)
    pk = S.SkToPk(sk)
    ctx.check(isinstance(pk, bytes) and len(pk) == 48, "roundtrip", "pk_shape", case, f"SkToPk returned {pk!r}")
    try:
        pkpt = B.pubkey_point(pk)
    except B.Reject as r:
        ctx.violation("roundtrip", "pk_undecodable", case, f"SkToPk output is not a canonical encoding ({r.reason})")
        pkpt = None
    ctx.check(pkpt == B.g1_mul(B.G1, sk), "roundtrip", "pk_value", case, "SkToPk(sk) does not decode to sk*G1")
    sig = S.Sign(sk, msg)
    ctx.check(isinstance(sig, bytes) and len(sig) == 96, "roundtrip", "sig_shape", case, f"Sign returned {sig!r}")
    ok = S.Verify(pk, msg, sig)
    ctx.check(ok is True, "roundtrip", "honest_signature_rejected", case,
              f"{S.__name__}.Verify(SkToPk(sk), m, Sign(sk, m)) = {ok!r}")
    ctx.check(S.KeyValidate(pk) is True, "roundtrip", "honest_key_invalid", case, "KeyValidate(SkToPk(sk)) is not True")
    # the same calls with the arguments passed by name: the calling convention cannot change a result
    k1, k2 = kwcall(S.SkToPk, sk), kwcall(S.Verify, pk, msg, sig)
    if k1 is not None and k2 is not None:
        ctx.check(k1() == pk, "roundtrip", "keyword_call", case, "SkToPk with the key passed by name differs")
        ctx.check(k2() is True, "roundtrip", "keyword_call", case, "Verify with arguments passed by name is not True")
        ctx.label("rt:keyword_arguments")
    ctx.label(f"rt:{suite}")
    c = sc.sk_class(sk)
    ctx.label("rt:sk=boundary" if c == "boundary" else ("rt:sk=curve_parameter_related" if c == "curve_parameter_related" else f"rt:sk{c}"))
    if sk.bit_length() >= 200:
        ctx.label("rt:sk>=200b")
    ctx.label(f"rt:msg={sc.msg_class(msg)}")
    nonascii = any(b > 127 for b in msg)
    if sk.bit_length() >= 200 or c == "boundary" or not msg or len(msg) >= 56 or nonascii:
        ctx.nontrivial(("r", suite, sk, case["msg"]))
    ctx.sample(case, f"rt:{suite}")


def o_pop(ctx, case):
    sk = case["sk"]
    ctx.begin("pop", case)
    S = sc.lib_suite("pop")
    pk = S.SkToPk(sk)
    proof = S.PopProve(sk)
    ctx.check(isinstance(proof, bytes) and len(proof) == 96, "pop", "proof_shape", case, f"PopProve returned {proof!r}")
    ok = S.PopVerify(pk, proof)
    ctx.check(ok is True, "pop", "honest_proof_rejected", case, f"PopVerify(SkToPk(sk), PopProve(sk)) = {ok!r}")
    ctx.label("pop")
    if sk.bit_length() >= 200 or sk in sc.BOUNDARY_SKS:
        ctx.nontrivial(("p", sk))
    ctx.sample(case, "pop")


def _bad_value(case):
    if "bad_int" in case:
        return case["bad_int"]
    if "bad_huge" in case:
        return sc.HUGE_BAD_SKS[case["bad_huge"]]
    return sc.BAD_SK_OBJECTS[case["bad_obj"]]


def _show(case, bad):
    return case["bad_huge"] if "bad_huge" in case else repr(bad)


def _numeric_twin(kind, k):
    import decimal
    import fractions
    return {"float": float(k), "fraction": fractions.Fraction(k), "decimal": decimal.Decimal(k),
            "complex": complex(k, 0)}[kind]


def o_reject_after_use(ctx, case):
    """A value that merely COMPARES equal to a valid key (1.0, Fraction(5), Decimal(2**60)) is still not an
    integer: it must be refused even right after the integer itself was accepted by the same entry point."""
    from eth_utils import ValidationError
    suite, entry, k, kind = case["suite"], case["entry"], case["k"], case["twin"]
    if entry == "PopProve" and suite != "pop":
        return
    ctx.begin("reject_after_use", case)
    S = sc.lib_suite(suite)
    fn = {"SkToPk": lambda x: S.SkToPk(x), "Sign": lambda x: S.Sign(x, b"message"),
          "PopProve": lambda x: S.PopProve(x)}[entry]
    fn(k)                                            # the honest call first
    bad = _numeric_twin(kind, k)
    try:
        out = fn(bad)
    except ValidationError:
        out = ValidationError
    ctx.check(out is ValidationError, "reject_after_use", "non_integer_accepted", case,
              f"{S.__name__}.{entry}({bad!r}) returned {out!r} after {entry}({k}) had been called")
    ctx.label("reject:numeric_twin_after_use")
    ctx.nontrivial(("t", suite, entry, k, kind))
    ctx.sample(case, f"twin:{kind}")


def o_reject(ctx, case):
    from eth_utils import ValidationError
    suite, entry = case["suite"], case["entry"]
    if entry == "PopProve" and suite != "pop":
        return
    ctx.begin("reject", case)
    S = sc.lib_suite(suite)
    bad = _bad_value(case)
    call = {"SkToPk": lambda: S.SkToPk(bad), "Sign": lambda: S.Sign(bad, b"message"),
            "PopProve": lambda: S.PopProve(bad)}[entry]
    try:
        out = call()
    except ValidationError:
        out = ValidationError
    # any other exception type propagates and is reported as exception:<Type>
    ctx.check(out is ValidationError, "reject", "bad_key_accepted", case,
              f"{S.__name__}.{entry}({_show(case, bad)}) returned {out!r} instead of raising ValidationError")
    # and with the key passed by its parameter name
    kw = {"SkToPk": lambda: kwcall(S.SkToPk, bad), "Sign": lambda: kwcall(S.Sign, bad, b"message"),
          "PopProve": lambda: kwcall(S.PopProve, bad)}[entry]()
    if kw is not None:
        try:
            out = kw()
        except ValidationError:
            out = ValidationError
        ctx.check(out is ValidationError, "reject", "bad_key_accepted_by_name", case,
                  f"{S.__name__}.{entry} with the key {_show(case, bad)} passed BY NAME returned {out!r} instead of raising ValidationError")
        ctx.label("reject:keyword_argument")
    ctx.label("reject:int" if "bad_int" in case else "reject:huge_int" if "bad_huge" in case else "reject:type")
    ctx.nontrivial(("x", suite, entry, _show(case, bad)))
    ctx.sample(case, f"reject:{entry}:{'int' if 'bad_int' in case else 'type'}")


def o_keygen(ctx, case):
    suite = case["suite"]
    ikm, info = unhx(case["ikm"]), unhx(case["info"])
    ctx.begin("keygen", case)
    S = sc.lib_suite(suite)
    sk = S.KeyGen(ikm, info)
    ctx.check(isinstance(sk, int) and not isinstance(sk, bool) and 1 <= sk < R, "keygen", "range", case, f"KeyGen returned {sk!r}, outside [1, r-1]")
    pk = S.SkToPk(sk)
    sig = S.Sign(sk, ikm[:8])
    ctx.check(S.Verify(pk, ikm[:8], sig) is True, "keygen", "unusable", case, "a KeyGen key does not sign/verify")
    ctx.label("keygen")
    ctx.nontrivial(("k", suite, case["ikm"], case["info"]))
    ctx.sample(case, "keygen")




def s_rt(big):
    base = st.fixed_dictionaries({"suite": sc.s_suite(), "sk": sc.s_sk(), "msg": s_msg(300, big=big).map(hx)})

    def own_pk_prefix(t):
        d, k = t
        if k == 0:
            return d
        pk = blssig.sk_to_pk(d["sk"])
        d = dict(d)
        d["msg"] = hx([pk + unhx(d["msg"])[:40], pk, pk + pk][k - 1])
        return d
    return st.tuples(base, st.sampled_from([0, 0, 0, 0, 0, 1, 2, 3])).map(own_pk_prefix)


def t_rt(ctx, shard, nshards, n):
    ex = []
    for suite in sc.SUITES:
        for sk in sc.BOUNDARY_SKS:
            for L in sc.BOUNDARY_MSG_LENS:
                ex.append({"suite": suite, "sk": sk, "msg": hx(bytes((7 * i + L) % 256 for i in range(L)))})
    if ctx.tier == "thorough":
        ex.append({"suite": "basic", "sk": R - 1, "msg": hx(b"\x00" * 4096)})
        ex.append({"suite": "aug", "sk": 1 << 254, "msg": hx(bytes(range(256)) * 9)})
    # quick tier: a rotating third of the 84 pinned examples per run would hide boundaries; run all
    drive(ctx, f"rt{shard}", s_rt(ctx.tier == "thorough"), lambda c: o_roundtrip(ctx, c), n, ex[shard::nshards],
          shrink=False)


def t_special_pk(ctx):
    """SkToPk on every curve-parameter-related scalar against the model (cheap; no pairing)."""
    for k in sc.SPECIAL_SKS:
        case = {"suite": "basic", "sk": k}
        ctx.begin("special_pk", case)
        pk = sc.lib_suite("basic").SkToPk(k)
        ctx.check(pk == blssig.sk_to_pk(k), "special_pk", "pk_value", case,
                  f"SkToPk({k}) is not the compressed point sk*G1")
    ctx.label("special_pk", len(sc.SPECIAL_SKS))
    ctx.nontrivial_bulk(len(sc.SPECIAL_SKS))


def o_special_pk(ctx, case):
    ctx.begin("special_pk", case)
    pk = sc.lib_suite(case["suite"]).SkToPk(case["sk"])
    ctx.check(pk == blssig.sk_to_pk(case["sk"]), "special_pk", "pk_value", case, "SkToPk(sk) is not the compressed point sk*G1")


def t_pop(ctx, shard, nshards, n):
    ex = [{"sk": k} for k in sc.BOUNDARY_SKS]
    drive(ctx, f"pop{shard}", sc.s_sk().map(lambda k: {"sk": k}), lambda c: o_pop(ctx, c), n, ex[shard::nshards],
          shrink=False)


def t_reject(ctx):
    for suite in sc.SUITES:
        for entry in ("SkToPk", "Sign", "PopProve"):
            for v in sc.BAD_SKS:
                o_reject(ctx, {"suite": suite, "entry": entry, "bad_int": v})
            for i in range(len(sc.BAD_SK_OBJECTS)):
                o_reject(ctx, {"suite": suite, "entry": entry, "bad_obj": i})
            for name in sc.HUGE_BAD_SKS:
                o_reject(ctx, {"suite": suite, "entry": entry, "bad_huge": name})
    for suite in sc.SUITES:
        for entry in ("SkToPk", "Sign", "PopProve"):
            for kind in ("float", "fraction", "decimal", "complex"):
                for k in ((1, 5) if entry != "SkToPk" else (1, 2, 5, 1 << 52, 12345)):
                    o_reject_after_use(ctx, {"suite": suite, "entry": entry, "k": k, "twin": kind})
    # the refusals again in an interpreter started with -O (validation written as `assert` vanishes there)
    jobs = [{"sub": "reject", "case": {"suite": suite, "entry": entry, "bad_int": v}}
            for suite in sc.SUITES for entry in ("SkToPk", "Sign", "PopProve") for v in sc.BAD_SKS]
    jobs += [{"sub": "reject", "case": {"suite": suite, "entry": "SkToPk", "bad_obj": i}}
             for suite in sc.SUITES for i in range(len(sc.BAD_SK_OBJECTS))]
    jobs += [{"sub": "roundtrip", "case": {"suite": suite, "sk": 12345 + i, "msg": hx(b"under -O")}}
             for i, suite in enumerate(sc.SUITES)]
    run_cases_optimized(ctx, "C01", jobs)
    bad = st.one_of(st.integers(-(1 << 300), 0), st.integers(R, 1 << 300),
                    st.integers(0, 1 << 40).map(lambda k: R + k), st.integers(0, 1 << 40).map(lambda k: -k))
    strat = st.fixed_dictionaries({"suite": sc.s_suite(), "entry": st.sampled_from(["SkToPk", "Sign", "PopProve"]),
                                   "bad_int": bad})
    drive(ctx, "reject", strat, lambda c: o_reject(ctx, c), 300 if ctx.tier == "quick" else 5000)


def t_keygen(ctx, shard, n):
    strat = st.fixed_dictionaries({
        "suite": sc.s_suite(),
        "ikm": sized_binary((0, 1, 16, 31, 32, 33, 64, 128), 128).map(hx),
        "info": st.one_of(st.just(""), sized_binary((0, 1, 2, 32, 64), 64).map(hx)),
    })
    ex = [{"suite": "pop", "ikm": "", "info": ""}, {"suite": "basic", "ikm": "00" * 32, "info": ""}]
    drive(ctx, f"keygen{shard}", strat, lambda c: o_keygen(ctx, c), n, ex if shard == 0 else (), shrink=False)


ORACLES = {"roundtrip": o_roundtrip, "pop": o_pop, "reject": o_reject, "reject_after_use": o_reject_after_use, "special_pk": o_special_pk,
           "keygen": o_keygen}


def tasks(tier):
    selfcheck()
    q = tier == "quick"
    out = [Task("reject", "t_reject"), Task("special-pk", "t_special_pk")]
    ns = 11
    for s in range(ns):
        out.append(Task(f"rt-{s}", "t_rt", shard=s, nshards=ns, n=40 if q else 700))
    for s in range(2):
        out.append(Task(f"pop-{s}", "t_pop", shard=s, nshards=2, n=40 if q else 700))
        out.append(Task(f"keygen-{s}", "t_keygen", shard=s, n=40 if q else 700))
    return out
