"""C02 - Verify accepts exactly the one canonical signature."""
from hypothesis import strategies as st

from vf.harness import HarnessError, Task, drive, hx, run_cases_optimized, unhx
from vf.model import bls12381 as B
from vf.model import blssig
from vf.model.curves import BLS
from vf.props import _bls_common as bc
from vf.props import _sig_common as sc
from vf.strategies import msg as s_msg
from vf.strategies import uniform_int

P, R = B.P, B.R
RULE = ("for (suite, sk, message) from Hypothesis and an entry point (Verify of the three suites, PopVerify) a "
        "96-byte candidate is built by the model from a tagged union: canonical (also for messages starting with the key bytes, at SHA-256 block and 64 KiB boundaries, and for keys whose signature has a coordinate word with leading byte 0x1a or 0x00); sk'*H(m) for sk' in {sk-1, sk+1, "
        "r-sk, random}; signature of another message; signature under each other suite's tag, a possession "
        "proof offered as a signature of the key bytes and vice versa, an augmentation-suite signature made "
        "without the key prefix; -S; 2S; S+T for cofactor torsion T (full component, order 13, order 23); the "
        "identity; 1-4 bit flips over all 768 positions (all six flag bits and the ends of both words pinned); "
        "re-encodings (x_im+p, x_re+p, flag bits in the second word, infinity bit on a finite point); kG2 for "
        "random k; random bytes; and suites derived from the three stock classes with their own DST / POP_TAG (own-tag signature accepted by the derived suite only, stock-tag signature by the stock suite only). Oracle: Verify(pk, m, c) is True iff c equals the model's canonical signature "
        "byte for byte (uniqueness of BLS signatures + canonical encoding). Non-trivial = a candidate that is a "
        "valid subgroup encoding different from the canonical one (decided by the pairing equation) or a "
        "flag-bit flip / re-encoding; distinct by (suite, entry, sk, sha256(m), candidate)")
ASSUMPTIONS = ["model signatures vf/model/blssig.py (anchored by nine published Ethereum signatures)",
               "the secret key behind every public key used is known by construction"]
ENGINE = "hypothesis"
TECHNIQUE = ("property-based testing (Hypothesis) over a constructed candidate union against an analytic oracle (uniqueness of BLS signatures) evaluated by an independent model; call-sequence sub-check for domain separation")
ARMS = ("canonical", "other_key", "other_msg", "other_suite", "pop_confusion", "aug_no_prefix", "aug_prefix_confusion", "negated",
        "doubled", "plus_torsion", "identity", "bitflip", "reencoded", "random_point", "random_bytes")
_REQ = [f"arm:{a}" for a in ARMS] + ["verdict:True", "verdict:False", "reached_pairing:False-verdict",
                                      "pop_confusion:sequence", "entry:PopVerify", "entry:Verify:basic", "entry:Verify:aug", "entry:Verify:pop",
                                      "bitflip:flag_bit", "canonical:coordinate_leading_byte=0x1a",
                                      "canonical:coordinate_leading_byte=0x00", "derived:basic", "derived:aug", "derived:pop", "threads:concurrent_verify", "python_-O:cases", "canonical:bytes_subclass_instances"]
REQUIRED_LABELS = {"quick": _REQ, "thorough": _REQ}


def selfcheck():
    B.selfcheck()


def core_context(suite, entry, sk, msg):
    """(dst, message actually hashed) for this entry point."""
    pk = blssig.sk_to_pk(sk)
    if entry == "PopVerify":
        return blssig.POP_TAG, pk
    if suite == "aug":
        return blssig.DST["aug"], pk + msg
    return blssig.DST[suite], msg


def canonical(suite, entry, sk, msg):
    dst, m = core_context(suite, entry, sk, msg)
    return B.signature_bytes(blssig.core_sign_point(sk, m, dst))


_pairing_calls = [0]
_wrapped = [False]
_monitor_missing = [False]


def _wrap_pairing():
    if _wrapped[0]:
        return

    def observe(Q, Pt):
        _pairing_calls[0] += 1
    try:
        bc.install_pairing_monitor(observe)
    except RuntimeError:        # no such functions any more: fall back to the model's view
        _monitor_missing[0] = True
    _wrapped[0] = True


class _Bytes(bytes):
    pass


def o_verify(ctx, case):
    _wrap_pairing()
    suite, entry, sk, msg = case["suite"], case["entry"], case["sk"], unhx(case["msg"])
    cand = unhx(case["cand"])
    ctx.begin("verify", case)
    if len(cand) != 96:
        raise HarnessError("C02 candidates are 96-byte strings")
    S = sc.lib_suite(suite)
    pk = blssig.sk_to_pk(sk)
    canon = canonical(suite, entry, sk, msg)
    want = cand == canon
    before = _pairing_calls[0]
    if entry == "PopVerify":
        got = S.PopVerify(pk, cand)
    else:
        got = S.Verify(pk, msg, cand)
    reached = _pairing_calls[0] > before
    ctx.check(type(got) is bool, "verify", "type", case, f"returned {got!r}")
    if want:
        ctx.check(got is True, "verify", "canonical_rejected", case,
                  f"{entry} refused the canonical signature (arm {case.get('arm')})")
        # "byte-for-byte what Sign produces": tie the canonical string to the library's own signer
        # the same three strings as instances of a bytes SUBCLASS (HexBytes and the like): still the canonical strings
        sub_ = (S.PopVerify(_Bytes(pk), _Bytes(cand)) if entry == "PopVerify"
                else S.Verify(_Bytes(pk), _Bytes(msg), _Bytes(cand)))
        ctx.check(sub_ is True, "verify", "canonical_rejected_as_bytes_subclass", case,
                  f"{entry} refused the canonical signature when key, message and signature are instances of a bytes subclass")
        ctx.label("canonical:bytes_subclass_instances")
        made = S.PopProve(sk) if entry == "PopVerify" else S.Sign(sk, msg)
        ctx.check(made == canon, "verify", "sign_not_canonical", case,
                  f"{'PopProve' if entry == 'PopVerify' else 'Sign'} does not produce the canonical signature")
    else:
        ctx.check(got is False, "verify", f"forgery_accepted:{case.get('arm')}", case,
                  f"{S.__name__}.{entry} accepted a string that is not the canonical signature "
                  f"(arm {case.get('arm')}: {case.get('detail', '')})")
    arm = case.get("arm", "?")
    if arm == "pop_confusion":
        # domain separation must not depend on what was hashed before: run both directions on this
        # key in one process (honest proof -> PopVerify True, the same bytes as a signature of the key
        # bytes -> False; honest signature of the key bytes -> Verify True, as a proof -> False)
        P_ = sc.lib_suite("pop")
        proof, sigpk = blssig.pop_prove(sk), blssig.sign("pop", sk, pk)
        seq = [("PopVerify(pk, proof)", lambda: P_.PopVerify(pk, proof), True),
               ("Verify(pk, pk, proof)", lambda: P_.Verify(pk, pk, proof), False),
               ("Verify(pk, pk, Sign(sk, pk))", lambda: P_.Verify(pk, pk, sigpk), True),
               ("PopVerify(pk, Sign(sk, pk))", lambda: P_.PopVerify(pk, sigpk), False),
               ("Verify(pk, pk, proof) again", lambda: P_.Verify(pk, pk, proof), False)]
        for name, fn, exp in seq:
            out = fn()
            ctx.check(out is exp, "verify", "pop_domain_separation_sequence", case,
                      f"G2ProofOfPossession: {name} = {out!r}, expected {exp} (sequence on one key in one process)")
        ctx.label("pop_confusion:sequence")
    ctx.label(f"arm:{arm}")
    ctx.label(f"verdict:{want}")
    ctx.label("entry:PopVerify" if entry == "PopVerify" else f"entry:Verify:{suite}")
    if not want and (reached or (_monitor_missing[0] and B.valid_signature(cand))):
        ctx.label("reached_pairing:False-verdict")
    nt_ = False
    if not want:
        if B.valid_signature(cand):
            ctx.label("candidate:valid_subgroup_encoding")
            nt_ = True
        if arm in ("bitflip", "reencoded"):
            nt_ = True
    if case.get("flag_bit"):
        ctx.label("bitflip:flag_bit")
    if want:
        for w, nm in ((cand[0] & 0x1F, "x_im"), (cand[48], "x_re")):
            if w == P >> 376:
                ctx.label("canonical:coordinate_leading_byte=0x1a")
            if w == 0:
                ctx.label("canonical:coordinate_leading_byte=0x00")
    if nt_:
        ctx.nontrivial(("v", suite, entry, sk, case["msg"], case["cand"]))
    ctx.sample({k: v for k, v in case.items()}, f"{arm}:{entry}")


derived_suite = sc.derived_suite


def o_derived(ctx, case):
    """Every entry point of a derived suite must use the derived suite's own tags - and nothing else: the
    canonical signature under tag T verifies in the T-suite only, the stock-tag signature in the stock suite only."""
    suite, sk, msg = case["suite"], case["sk"], unhx(case["msg"])
    tag, ptag = unhx(case["tag"]), unhx(case["pop_tag"])
    ctx.begin("derived", case)
    S = sc.lib_suite(suite)
    A = derived_suite(suite, tag, ptag)
    if A is None:
        ctx.label("derived:subclassing_refused")
        return
    pk = blssig.sk_to_pk(sk)
    hashed = pk + msg if suite == "aug" else msg
    own = B.signature_bytes(blssig.core_sign_point(sk, hashed, tag))
    stock = B.signature_bytes(blssig.core_sign_point(sk, hashed, blssig.DST[suite]))
    calls = [("App.Sign(sk, m) is the canonical signature under the application tag", lambda: A.Sign(sk, msg) == own, True),
             ("App.Verify(pk, m, signature under the application tag)", lambda: A.Verify(pk, msg, own), True),
             ("App.Verify(pk, m, signature under the stock tag)", lambda: A.Verify(pk, msg, stock), False),
             ("stock Verify(pk, m, signature under the application tag)", lambda: S.Verify(pk, msg, own), False),
             ("stock Verify(pk, m, stock signature) after the derived suite was used", lambda: S.Verify(pk, msg, stock), True)]
    if suite == "pop":
        proof_own = B.signature_bytes(blssig.core_sign_point(sk, pk, ptag))
        calls += [("App.PopProve(sk) is the proof under the application proof tag", lambda: A.PopProve(sk) == proof_own, True),
                  ("App.PopVerify(pk, proof under the application proof tag)", lambda: A.PopVerify(pk, proof_own), True),
                  ("App.PopVerify(pk, stock proof)", lambda: A.PopVerify(pk, blssig.pop_prove(sk)), False),
                  ("stock PopVerify(pk, application proof)", lambda: S.PopVerify(pk, proof_own), False)]
    for name, fn, exp in calls:
        out = fn()
        ctx.check(out is exp, "derived", "wrong_tag_used", case,
                  f"{S.__name__} derived with DST={tag!r}: {name} = {out!r}, expected {exp}")
    ctx.label(f"derived:{suite}")
    ctx.nontrivial(("d", suite, sk, case["msg"], case["tag"], case["pop_tag"]))
    ctx.sample(case, f"derived:{suite}")


def o_threads(ctx, case):
    """The verdicts do not depend on what other threads are verifying at the same moment: three threads call
    Verify at once - the canonical signature, the canonical signature of another suite's key/message, and the
    negated signature - with a short switch interval, twice over."""
    import sys
    import threading
    sk, msg = case["sk"], unhx(case["msg"])
    ctx.begin("threads", case)
    pk = blssig.sk_to_pk(sk)
    jobs = []
    for suite in sc.SUITES:
        S = sc.lib_suite(suite)
        canon = canonical(suite, "Verify", sk, msg)
        neg = B.signature_bytes(BLS.neg("G2", B.signature_point(canon)))
        jobs.append((f"{S.__name__}.Verify(canonical)", lambda S=S, c=canon: S.Verify(pk, msg, c), True))
        jobs.append((f"{S.__name__}.Verify(negated)", lambda S=S, c=neg: S.Verify(pk, msg, c), False))
    P_ = sc.lib_suite("pop")
    jobs.append(("PopVerify(canonical proof)", lambda: P_.PopVerify(pk, blssig.pop_prove(sk)), True))
    jobs = jobs[case.get("rot", 0) % len(jobs):] + jobs[:case.get("rot", 0) % len(jobs)]
    jobs = jobs[:case.get("threads", 3) * 2]
    out, lock = [], threading.Lock()

    def worker(name, fn, exp):
        try:
            got = fn()
        except Exception as e:  # noqa
            got = f"raised {type(e).__name__}"
        with lock:
            out.append((name, got, exp))
    old = sys.getswitchinterval()
    sys.setswitchinterval(1e-5)
    try:
        for half in (jobs[:len(jobs) // 2], jobs[len(jobs) // 2:]):
            ths = [threading.Thread(target=worker, args=j) for j in half]
            for th in ths:
                th.start()
            for th in ths:
                th.join()
    finally:
        sys.setswitchinterval(old)
    for name, got, exp in out:
        ctx.check(got is exp, "threads", "concurrent_verdict", case,
                  f"{name} = {got!r} while other threads were verifying, expected {exp}")
    ctx.label("threads:concurrent_verify", len(out))
    ctx.nontrivial(("t", sk, case["msg"], case.get("rot", 0)))
    ctx.sample(case, "threads")


def t_threads(ctx, n):
    # every candidate arm once more in an interpreter started with -O
    jobs = [{"sub": "verify", "case": build((sc.SUITES[i % 3], "Verify" if i % 4 else "PopVerify", 900 + i, b"under -O", arm,
                                              4321 + i, i, [766]))} for i, arm in enumerate(ARMS)]
    jobs.append({"sub": "derived", "case": {"suite": "aug", "sk": 77, "msg": hx(b"under -O"), "tag": hx(sc.APP_TAGS[0]),
                                            "pop_tag": hx(b"APP-POP")}})
    run_cases_optimized(ctx, "C02", jobs)
    for i in range(n):
        o_threads(ctx, {"sk": 1234567 + 17 * i + ctx.seed, "msg": hx(b"concurrent-%d" % i), "rot": 2 * i, "threads": 3})


ORACLES = {"verify": o_verify, "derived": o_derived, "threads": o_threads}

FLAG_BITS = (767, 766, 765, 383, 382, 381)
PINNED_BITS = FLAG_BITS + (0, 7, 380, 384, 391, 760, 764)


def flip(b: bytes, bits):
    v = int.from_bytes(b, "big")
    for i in bits:
        v ^= 1 << i
    return v.to_bytes(96, "big")


def build(t):
    """(suite, entry, sk, msg, arm, aux ints) -> case with the candidate built by the model."""
    suite, entry, sk, msg, arm, a, b, bits = t
    if entry == "PopVerify":
        suite = "pop"
    dst, m = core_context(suite, entry, sk, msg)
    H = blssig.hash_point(m, dst)
    S = B.g2_mul(H, sk)
    detail = ""
    flag_bit = False
    if arm == "canonical":
        if b % 3 == 0 and entry == "Verify":
            msg = blssig.sk_to_pk(sk) + msg[:b]            # a message that starts with the signer's own key bytes
            dst, m = core_context(suite, entry, sk, msg)
            S = B.g2_mul(blssig.hash_point(m, dst), sk)
            detail = "message starts with the signer's public key"
        elif b % 3 == 1:
            # walk to a neighbouring key whose canonical signature has a coordinate word in a boundary class
            # of the 48-byte encoding: leading byte equal to that of p (the valid elements of
            # [0x1a << 376, p), about 1 signature in 1500) or leading byte zero.  H(m) does not depend on the key for
            # Verify of the basic and pop suites, so the walk is one point addition per step there.
            cheap = entry == "Verify" and suite != "aug"
            cls = "top" if cheap and a % 4 else "zero"
            hit = (lambda w: w >> 376 == P >> 376) if cls == "top" else (lambda w: w >> 376 == 0)
            for _ in range(30000 if cheap else 40):
                if S is not None and (hit(S[0][0]) or hit(S[0][1])):
                    detail = f"a coordinate word of the signature has leading byte {'0x1a (as p)' if cls == 'top' else '0x00'}"
                    break
                sk = sk + 1 if sk + 1 < R else 1
                if cheap:
                    S = B.g2_add(S, H) if sk != 1 else H
                else:
                    dst, m = core_context(suite, entry, sk, msg)
                    S = B.g2_mul(blssig.hash_point(m, dst), sk)
        c = B.signature_bytes(S)
    elif arm == "other_key":
        sk2 = [sk - 1, sk + 1, R - sk, 1 + a % (R - 1)][b % 4]
        sk2 = sk2 if 0 < sk2 < R else R - 1
        detail = f"sk'={sk2}"
        c = B.signature_bytes(B.g2_mul(H, sk2))
    elif arm == "other_msg":
        m2 = [m + b"\x00", m[:-1] if m else b"\x00", bytes([m[0] ^ 1]) + m[1:] if m else b"\x01", m + m,
              m[:-1] + bytes([m[-1] ^ 0x80]) if m else b"\x80",
              m[:-65536] if len(m) >= 65536 else m[:len(m) // 2] + b"\x01"][b % 6]        # a whole trailing chunk missing
        c = B.signature_bytes(blssig.core_sign_point(sk, m2, dst))
    elif arm == "other_suite":
        tags = [d for d in list(blssig.DST.values()) + [blssig.POP_TAG, dst[:-1], dst + b"_", b""] if d != dst]
        d2 = tags[b % len(tags)]
        detail = f"dst={d2!r}"
        c = B.signature_bytes(blssig.core_sign_point(sk, m, d2))
    elif arm == "pop_confusion":
        pk = blssig.sk_to_pk(sk)
        if entry == "PopVerify":
            # a message signature over the key bytes, presented as a proof
            s2 = ["basic", "pop", "aug"][b % 3]
            detail = f"{s2}.Sign(sk, pk) offered to PopVerify"
            c = blssig.sign(s2, sk, pk)
        else:
            # a possession proof offered as a signature of the key bytes
            msg = pk
            detail = "PopProve(sk) offered to Verify(pk, pk, .)"
            c = blssig.pop_prove(sk)
    elif arm == "aug_no_prefix":
        suite, entry = "aug", "Verify"
        detail = "aug-suite signature over the bare message"
        c = B.signature_bytes(blssig.core_sign_point(sk, msg, blssig.DST["aug"]))
    elif arm == "aug_prefix_confusion":
        # messages m and pk || m are DIFFERENT messages; the augmentation suite hashes pk || m and
        # pk || pk || m respectively.  Offer the signature of the one for the other, both ways.
        suite, entry = "aug", "Verify"
        pk = blssig.sk_to_pk(sk)
        if b % 2:
            detail = "signature of m offered for the message pk || m"
            c = blssig.sign("aug", sk, msg)
            msg = pk + msg
        else:
            detail = "signature of pk || m offered for the message m"
            c = blssig.sign("aug", sk, pk + msg)
    elif arm == "negated":
        c = B.signature_bytes(BLS.neg("G2", S))
    elif arm == "doubled":
        c = B.signature_bytes(B.g2_add(S, S))
    elif arm == "plus_torsion":
        T = [bc.torsion_point("G2", a % 50), bc.small_point("G2", 13, 1 + a % 5), bc.small_point("G2", 23, 1 + a % 5)][b % 3]
        detail = ["full cofactor component", "order 13", "order 23"][b % 3]
        c = B.signature_bytes(B.g2_add(S, T))
    elif arm == "identity":
        c = B.signature_bytes(None)
    elif arm == "bitflip":
        bits = sorted(set(bits))
        flag_bit = any(i in FLAG_BITS for i in bits)
        detail = f"bits {bits}"
        c = flip(B.signature_bytes(S), bits)
    elif arm == "reencoded":
        z1, z2 = B.compress_g2(S)
        k = b % 6
        if k == 0:
            # x_im + p only fits in 381 bits for about 19 % of the signatures: walk to a neighbouring key
            # whose signature admits it (and whose sign flag is the one asked for), so that this
            # re-encoding is exercised with both flag values and not only when luck has it
            want_flag = (a >> 3) & 1
            for _ in range(60):
                if (z1 & B.MASK381) + P < (1 << 381) and bool(z1 & B.A_BIT) == bool(want_flag):
                    break
                sk = sk + 1 if sk + 1 < R else 1
                dst, m = core_context(suite, entry, sk, msg)
                S = B.g2_mul(blssig.hash_point(m, dst), sk)
                z1, z2 = B.compress_g2(S)
        if k == 0 and (z1 & B.MASK381) + P < (1 << 381):
            z1 += P
        elif k == 1 or k == 0:
            z2 += P
        elif k == 2:
            z2 |= 1 << (381 + a % 3)
        elif k == 3:
            z1 |= B.B_BIT
        elif k == 4:
            z1, z2 = (z1 & ~B.MASK381) | B.B_BIT, 0          # infinity flag with the sign bit kept
        else:
            z1 ^= B.C_BIT
        detail = f"re-encoding {k}"
        c = z1.to_bytes(48, "big") + z2.to_bytes(48, "big")
    elif arm == "random_point":
        c = B.signature_bytes(B.g2_mul(B.G2, 1 + a % (R - 1)))
    elif arm == "random_bytes":
        c = (a % (1 << 768)).to_bytes(96, "big")
    else:
        raise AssertionError(arm)
    return {"suite": suite, "entry": entry, "sk": sk, "msg": hx(msg), "arm": arm, "detail": detail,
            "flag_bit": flag_bit, "cand": hx(c)}


def s_case():
    entry = st.sampled_from(["Verify", "Verify", "Verify", "PopVerify"])
    bits = st.one_of(st.lists(st.integers(0, 767), min_size=1, max_size=4),
                     st.sampled_from(PINNED_BITS).map(lambda i: [i]))
    return st.tuples(sc.s_suite(), entry, sc.s_sk(), s_msg(120), uniform_int(0, len(ARMS) - 1).map(lambda i: ARMS[i]), uniform_int(0, (1 << 768) - 1),
                     st.integers(0, 11), bits).map(build)


def t_verify(ctx, shard, nshards, n):
    ex = []
    for i, bit in enumerate(PINNED_BITS):
        ex.append(build((sc.SUITES[i % 3], "Verify" if i % 4 else "PopVerify", 3 + i, b"m%d" % i, "bitflip", 0, 0, [bit])))
    for i, arm in enumerate(ARMS):
        ex.append(build((sc.SUITES[i % 3], "Verify", R - 1 - i, b"", arm, 12345 + i, i, [5])))
        ex.append(build(("pop", "PopVerify", 2 + i, b"", arm, 999 + i, i + 1, [766])))
    for i, su in enumerate(("basic", "pop", "basic", "pop")):
        ex.append(build((su, "Verify", 1000 * i + 11, b"canonical signature %d" % i, "canonical", 1 + i, 1, [3])))
    for i, L in enumerate((64, 55, 56, 63, 65, 128)):          # SHA-256 block and padding boundaries
        ex.append(build((sc.SUITES[i % 3], "Verify", 500 + i, bytes(range(L)), "canonical", 9, 2, [3])))
    # long messages whose hashed length sits on a 64 KiB boundary (65488 + 48 key bytes in the augmentation suite)
    for i, (su, L) in enumerate((("basic", 65536), ("aug", 65488), ("pop", 131072))):
        big = bytes((7 * q + i) % 251 for q in range(1024)) * (L // 1024 + 1)
        ex.append(build((su, "Verify", 77 + i, big[:L], "other_msg", 5, 2, [3])))       # first byte flipped
        ex.append(build((su, "Verify", 77 + i, big[:L], "other_msg", 5, 1, [3])))       # last byte dropped
        ex.append(build((su, "Verify", 77 + i, big[:L], "other_msg", 5, 5, [3])))       # last 64 KiB dropped
        ex.append(build((su, "Verify", 77 + i, big[:L], "canonical", 5, 1, [3])))
    drive(ctx, f"verify{shard}", s_case(), lambda c: o_verify(ctx, c), n, ex[shard::nshards], shrink=False)


def t_derived(ctx, shard, n):
    tags = st.sampled_from([b"APP-V01-CS01-with-BLS12381G2_XMD:SHA-256_SSWU_RO_", b"", b"x",
                            b"BLS_SIG_BLS12381G2_XMD:SHA-256_SSWU_RO_NUL_X", b"t" * 255])
    strat = st.fixed_dictionaries({"suite": sc.s_suite(), "sk": sc.s_sk(), "msg": s_msg(80, huge_rate=0).map(hx),
                                   "tag": tags.map(hx), "pop_tag": st.sampled_from([b"APP-POP-TAG", b"", b"p" * 255]).map(hx)})
    ex = [{"suite": su, "sk": 41 + i, "msg": hx(b"derived suite"), "tag": hx(b"ACME-V01-CS01-with-BLS12381G2_XMD:SHA-256_SSWU_RO_"),
           "pop_tag": hx(b"ACME-POP")} for i, su in enumerate(sc.SUITES) if i % 3 == shard % 3]
    drive(ctx, f"derived{shard}", strat, lambda c: o_derived(ctx, c), n, ex, shrink=False)


def t_allflips(ctx, suite, lo, hi):
    """thorough: every single-bit flip of one signature."""
    sk, msg = 0x1234567 + lo, b"all single-bit flips"
    for bit in range(lo, hi):
        o_verify(ctx, build((suite, "Verify", sk, msg, "bitflip", 0, 0, [bit])))


def tasks(tier):
    selfcheck()
    q = tier == "quick"
    ns = 16
    out = [Task(f"verify-{s}", "t_verify", shard=s, nshards=ns, n=36 if q else 1200) for s in range(ns)]
    out += [Task(f"derived-{s}", "t_derived", shard=s, n=2 if q else 60) for s in range(3)]
    out.append(Task("threads", "t_threads", n=2 if q else 40))
    if not q:
        for i, suite in enumerate(sc.SUITES):
            for lo in range(0, 768, 96):
                out.append(Task(f"flips-{suite}-{lo}", "t_allflips", suite=suite, lo=lo, hi=lo + 96))
    return out
