"""C03 - aggregation is the group sum and aggregate checks accept only it."""
import functools

from hypothesis import strategies as st

from vf.harness import HarnessError, Task, drive, hx, unhx
from vf.model import bls12381 as B
from vf.model import blssig
from vf.model.curves import BLS
from vf.props import _bls_common as bc
from vf.props import _sig_common as sc
from vf.strategies import uniform_int

P, R = B.P, B.R
RULE = ("signer sets of size 1..6 (thorough: up to 32) with keys from a pool of boundary / full-width / random "
        "secret keys, forced repeated keys, repeated messages and zero-sum pairs (sk, r-sk); honest signatures "
        "and the expected aggregate come from the model. One perturbation per case from: none, permute, "
        "regroup (aggregate of aggregates), drop / duplicate / substitute a signature, drop a signer's key "
        "and message, swap two messages, swap two keys, append / drop / repeat a message or append a key (length mismatch whose "
        "zip-truncated prefix is valid), alter the aggregate (-A, A+S, A+T, bit flip, identity), replace a key "
        "by the identity / a non-subgroup point / malformed bytes, a pair of keys P+T, Q-T whose torsion cancels, empty lists, wrong-size Aggregate entries. "
        "Oracle (exact, by non-degeneracy): Aggregate == canonical encoding of the model group sum for every "
        "order and grouping, ValidationError for an empty list or a wrong-size entry; AggregateVerify == [n>=1, "
        "|PKs|=|msgs|, every key valid, (basic) messages distinct, A canonical in the subgroup, decode(A) = "
        "sum d_i H(m'_i)]; FastAggregateVerify == [n>=1, keys valid, sum d_i != 0, decode(A) = (sum d_i) H(m)]. "
        "Non-trivial = n >= 2 with a perturbation, a repeated key or a repeated message; distinct by digest of "
        "(suite, entry, keys, messages, aggregate)")
ASSUMPTIONS = ["model signatures and group sums (vf/model/blssig.py, bls12381.py); discrete logs of all valid "
               "keys are known by construction",
               "FastAggregateVerify with keys summing to the identity must return False (IETF KeyValidate on the "
               "aggregate key)"]
ENGINE = "hypothesis"
TECHNIQUE = ("property-based testing (Hypothesis): metamorphic perturbations of signer sets judged by an exact acceptance predicate computed by an independent model")
PERTS = ("none", "permute", "regroup", "drop_sig", "dup_sig", "subst_sig", "drop_signer", "swap_msgs", "swap_keys",
         "extra_msg", "drop_msg", "dup_msg", "extra_key", "neg_agg", "agg_plus_sig", "agg_plus_torsion", "agg_bitflip", "agg_uncompressed", "agg_identity",
         "key_identity", "key_non_subgroup", "key_cancel_pair", "key_malformed", "empty")
_REQ = ([f"pert:{p}" for p in PERTS] +
        ["entry:AggregateVerify:basic", "entry:AggregateVerify:aug", "entry:AggregateVerify:pop",
         "entry:FastAggregateVerify", "entry:Aggregate", "want:True", "want:False", "repeated_key", "repeated_msg", "aggregate_verify:all_messages_equal",
         "zero_sum", "honest_aggregate_is_identity", "aggregate:wrong_size", "aggregate:empty", "aggregate:regroup", "n>=4",
         "n=1:accepted:AggregateVerify:basic", "n=1:accepted:AggregateVerify:aug", "n=1:accepted:AggregateVerify:pop",
         "n=1:accepted:FastAggregateVerify:pop"])
_AGG = ["derived:basic", "derived:aug", "derived:pop", "aggregate:n>=7", "aggregate:entry:zero_component:y_re=0", "aggregate:entry:zero_component:y_im=0",
        "aggregate:entry:inverse_of_entry", "aggregate:entry:repeated_entry"]
REQUIRED_LABELS = {"quick": _REQ + _AGG, "thorough": _REQ + ["n>=16"] + _AGG}

KEY_POOL = [1, 2, 3, R - 1, R - 2, (R - 1) // 2, 0x263dbd792f5b1be47ed85f8938c0f29586af0d3ac7b977f21c278fe1462040e3,
            0x47b8192d77bf871b62e87859d653922725724a5c031afeabc60bcef5ff665138, (1 << 254) + 12345, 1 << 200,
            0xdeadbeef, 12, R - 12]
MSG_POOL = [b"", b"\x00", b"a", b"message", b"\x00" * 32, b"\x56" * 32, b"\xab" * 32, bytes(range(64)), b"x" * 65,
            b"msg-9", b"msg-10", b"msg-11"] + [b"pool-%d" % i for i in range(24)]


def selfcheck():
    B.selfcheck()


@functools.lru_cache(maxsize=4096)
def pk_of(sk):
    return blssig.sk_to_pk(sk)


@functools.lru_cache(maxsize=8192)
def sig_point(suite, sk, msg):
    return blssig.sign_point(suite, sk, msg)


def core_msg(suite, pk, msg):
    return pk + msg if suite == "aug" else msg


# ---- oracles ----------------------------------------------------------------------------------------------
def expected_sum(suite, dst, pks, dlogs, msgs):
    """sum_i d_i * H(m'_i), grouping equal messages first."""
    by = {}
    for pk, d, m in zip(pks, dlogs, msgs):
        cm = core_msg(suite, pk, m)
        by[cm] = (by.get(cm, 0) + d) % R
    acc = None
    for cm, d in sorted(by.items()):
        acc = B.g2_add(acc, B.g2_mul(blssig.hash_point(cm, dst), d))
    return acc


def o_verify(ctx, case):
    suite, entry = case["suite"], case["entry"]
    pks = [unhx(p) for p in case["pks"]]
    dlogs = case["dlogs"]
    msgs = [unhx(m) for m in case["msgs"]]
    agg = unhx(case["agg"])
    ctx.begin("verify", case)
    S = sc.lib_suite(suite)
    keys_ok = True
    for pk, d in zip(pks, dlogs):
        if d is None:
            if B.valid_pubkey(pk):
                raise HarnessError("a valid key without a known discrete log cannot be decided")
            keys_ok = False
        elif pk_of(d) != pk:
            raise HarnessError("inconsistent case: dlog does not match key")
    dst = blssig.DST[suite]
    reason = None
    if entry == "AggregateVerify":
        if len(pks) < 1:
            reason = "no signer"
        elif len(pks) != len(msgs):
            reason = "length mismatch"
        elif not keys_ok:
            reason = "invalid key"
        elif suite == "basic" and len(set(msgs)) != len(msgs):
            reason = "repeated message in the basic suite"
        elif not B.valid_signature(agg):
            reason = "aggregate not a canonical subgroup encoding"
        elif B.signature_point(agg) != expected_sum(suite, dst, pks, dlogs, msgs):
            reason = "aggregate is not the sum of the signers' signatures"
        pks_before, msgs_before = list(pks), list(msgs)
        got = S.AggregateVerify(pks, msgs, agg)
        ctx.check(pks == pks_before and msgs == msgs_before, "verify", "argument_lists_changed", case,
                  "AggregateVerify re-ordered or changed the lists it was given")
        if len(pks) <= 2:
            got_t = S.AggregateVerify(tuple(pks), tuple(msgs), agg)         # Sequence arguments given as tuples
            ctx.check(got_t is got, "verify", "tuple_vs_list", case,
                      f"AggregateVerify on tuples = {got_t!r}, on lists = {got!r}")
            ctx.label("verify:tuple_arguments")
    else:
        m = msgs[0]
        if len(pks) < 1:
            reason = "no signer"
        elif not keys_ok:
            reason = "invalid key"
        elif sum(dlogs) % R == 0:
            reason = "keys sum to the identity"
        elif not B.valid_signature(agg):
            reason = "aggregate not a canonical subgroup encoding"
        elif B.signature_point(agg) != B.g2_mul(blssig.hash_point(m, dst), sum(dlogs) % R):
            reason = "aggregate is not (sum sk_i) H(m)"
        got = S.FastAggregateVerify(pks, m, agg)
    want = reason is None
    ctx.check(type(got) is bool, "verify", "type", case, f"{entry} returned {got!r}")
    pert = case.get("pert", "?")
    if want:
        ctx.check(got is True, "verify", f"valid_rejected:{entry}", case,
                  f"{S.__name__}.{entry} = {got} on a correct aggregate (perturbation {pert}, n={len(pks)})")
    else:
        ctx.check(got is False, "verify", f"invalid_accepted:{entry}:{pert}", case,
                  f"{S.__name__}.{entry} = {got} although {reason} (perturbation {pert}, n={len(pks)})")
    n = len(pks)
    ctx.label(f"pert:{pert}")
    ctx.label(f"entry:AggregateVerify:{suite}" if entry == "AggregateVerify" else "entry:FastAggregateVerify")
    ctx.label(f"want:{want}")
    if entry == "AggregateVerify" and len(msgs) >= 2 and len(set(msgs)) == 1:
        ctx.label("aggregate_verify:all_messages_equal")
    rep_k = len(set(pks)) != len(pks)
    rep_m = len(set(msgs)) != len(msgs)
    if rep_k:
        ctx.label("repeated_key")
    if rep_m and entry == "AggregateVerify":
        ctx.label("repeated_msg")
    if all(d is not None for d in dlogs) and n >= 2 and sum(dlogs) % R == 0:
        ctx.label("zero_sum")
    if want and agg == B.signature_bytes(None):
        ctx.label("honest_aggregate_is_identity")
    if n == 1 and want:
        ctx.label(f"n=1:accepted:{entry}:{suite}")
    if n >= 4:
        ctx.label("n>=4")
    if n >= 16:
        ctx.label("n>=16")
    if n >= 2 and (pert != "none" or rep_k or rep_m):
        ctx.nontrivial(("v", suite, entry, case["pks"], case["msgs"], case["agg"]))
    ctx.sample({k: (v if k not in ("pks", "msgs") or len(v) <= 4 else v[:4] + ["..."]) for k, v in case.items()},
               f"{entry}:{pert}")


def o_aggregate(ctx, case):
    from eth_utils import ValidationError
    suite = case["suite"]
    sigs = [unhx(s) for s in case["sigs"]]
    ctx.begin("aggregate", case)
    S = sc.lib_suite(suite)
    bad_size = any(len(s) != 96 for s in sigs)
    if not sigs or bad_size:
        try:
            out = S.Aggregate(sigs)
        except ValidationError:
            out = ValidationError
        ctx.check(out is ValidationError, "aggregate", "refusal", case,
                  f"Aggregate({'[]' if not sigs else 'entry of wrong size'}) returned {out!r} instead of raising "
                  f"ValidationError")
        ctx.label("aggregate:empty" if not sigs else "aggregate:wrong_size")
        ctx.label("entry:Aggregate")
        ctx.nontrivial(("a", suite, case["sigs"]))
        return
    want = B.signature_bytes(blssig.aggregate_points([B.signature_point(s) for s in sigs]))
    sigs_before = list(sigs)
    got = S.Aggregate(sigs)
    ctx.check(sigs == sigs_before, "aggregate", "argument_list_changed", case, "Aggregate changed the list it was given")
    if len(sigs) >= 2:
        ctx.check(S.Aggregate(tuple(sigs)) == got, "aggregate", "tuple_vs_list", case,
                  "Aggregate of a tuple differs from Aggregate of the same list")
    ctx.check(isinstance(got, bytes) and got == want, "aggregate", "value", case,
              f"Aggregate = {got.hex() if isinstance(got, bytes) else got!r}, group sum = {want.hex()}")
    perm = case.get("perm")
    if perm:
        got2 = S.Aggregate([sigs[i] for i in perm])
        ctx.check(got2 == want, "aggregate", "order_dependent", case, f"Aggregate of the permutation {perm} differs")
    groups = case.get("groups")
    if groups:
        parts = [S.Aggregate([sigs[i] for i in g]) for g in groups if g]
        got3 = S.Aggregate(parts)
        ctx.check(got3 == want, "aggregate", "grouping_dependent", case, f"Aggregate of aggregates {groups} differs")
        ctx.label("aggregate:regroup")
    ctx.label("entry:Aggregate")
    for c in case.get("classes", ()):
        ctx.label("aggregate:entry:" + c)
    if len(sigs) >= 7:
        ctx.label("aggregate:n>=7")
    if len(sigs) >= 2:
        ctx.nontrivial(("a", suite, case["sigs"], perm, groups))
    ctx.sample({k: (v if k != "sigs" or len(v) <= 3 else v[:3] + ["..."]) for k, v in case.items()}, "Aggregate")


def o_derived(ctx, case):
    """Aggregate verification in a suite derived with an application tag: it must hash under ITS tag in every
    entry point - accept the aggregate made under that tag, refuse the one made under the stock tag - and the
    stock suite must do the converse."""
    suite, idxs, tag = case["suite"], case["idxs"], unhx(case["tag"])
    ctx.begin("derived", case)
    S, A = sc.lib_suite(suite), sc.derived_suite(suite, tag)
    if A is None:
        ctx.label("derived:subclassing_refused")
        return
    sks = [KEY_POOL[i % len(KEY_POOL)] for i in idxs]
    if len(set(sks)) != len(sks):
        sks = [5 + 3 * j for j in range(len(idxs))]
    pks = [pk_of(k) for k in sks]
    msgs = [MSG_POOL[(i + 3 * j) % len(MSG_POOL)] + b"#%d" % j for j, i in enumerate(idxs)]

    def agg(t, ms):
        return B.signature_bytes(blssig.aggregate_points(
            [blssig.core_sign_point(k, core_msg(suite, pk, m), t) for k, pk, m in zip(sks, pks, ms)]))
    own, stock = agg(tag, msgs), agg(blssig.DST[suite], msgs)
    calls = [("App.AggregateVerify(aggregate under the application tag)", lambda: A.AggregateVerify(pks, msgs, own), True),
             ("App.AggregateVerify(aggregate under the stock tag)", lambda: A.AggregateVerify(pks, msgs, stock), False),
             ("stock AggregateVerify(aggregate under the application tag)", lambda: S.AggregateVerify(pks, msgs, own), False),
             ("stock AggregateVerify(stock aggregate) after the derived suite was used", lambda: S.AggregateVerify(pks, msgs, stock), True)]
    if suite == "pop":
        one = [msgs[0]] * len(sks)
        fown, fstock = agg(tag, one), agg(blssig.DST[suite], one)
        calls += [("App.FastAggregateVerify(aggregate under the application tag)", lambda: A.FastAggregateVerify(pks, msgs[0], fown), True),
                  ("App.FastAggregateVerify(aggregate under the stock tag)", lambda: A.FastAggregateVerify(pks, msgs[0], fstock), False),
                  ("stock FastAggregateVerify(aggregate under the application tag)", lambda: S.FastAggregateVerify(pks, msgs[0], fown), False)]
    for name, fn, exp in calls:
        out = fn()
        ctx.check(out is exp, "derived", "wrong_tag_used", case,
                  f"{S.__name__} derived with DST={tag!r}, {len(sks)} signers: {name} = {out!r}, expected {exp}")
    ctx.label(f"derived:{suite}")
    ctx.nontrivial(("d", suite, tuple(idxs), case["tag"]))
    ctx.sample(case, f"derived:{suite}")


ORACLES = {"verify": o_verify, "aggregate": o_aggregate, "derived": o_derived}


# ---- generator ---------------------------------------------------------------------------------------------
def build(t):
    suite, fast, idxs, midxs, pert, a, b, fresh = t
    entry = "FastAggregateVerify" if fast else "AggregateVerify"
    if fast:
        suite = "pop"
    n = len(idxs)
    sks = []
    for j, i in enumerate(idxs):
        if i >= 1000:            # zero-sum partner of the previous signer
            sks.append(R - sks[-1] if sks else 5)
        elif i >= 500:           # repeat an earlier signer
            sks.append(sks[(i - 500) % len(sks)] if sks else KEY_POOL[0])
        elif fresh and j == 0:
            sks.append(1 + fresh % (R - 1))
        else:
            sks.append(KEY_POOL[i % len(KEY_POOL)])
    if fast:
        msgs = [MSG_POOL[midxs[0] % len(MSG_POOL)]] * n
    else:
        msgs = []
        for j in range(n):
            mi = midxs[j % len(midxs)]
            if mi >= 500 and msgs:      # repeat an earlier message
                msgs.append(msgs[(mi - 500) % len(msgs)])
            else:
                msgs.append(MSG_POOL[(mi + 7 * j) % len(MSG_POOL)])
        if suite == "pop" and (a % 5 == 0 or (1000 in idxs and a % 2 == 0)):
            msgs = [msgs[0]] * n            # one shared message through AggregateVerify (legal outside the basic suite);
            #                                 with a zero-sum pair the HONEST aggregate can then be the identity
        if suite == "basic" and pert != "none" and len(set(msgs)) != n:
            # keep most basic-suite cases out of the trivial "repeated message" refusal
            if a % 4:
                msgs = [MSG_POOL[(midxs[0] + j) % len(MSG_POOL)] for j in range(n)]
    pks = [pk_of(sk) for sk in sks]
    dlogs = list(sks)
    pts = [sig_point(suite, sk, m) for sk, m in zip(sks, msgs)]
    A = blssig.aggregate_points(pts)
    i, j = a % n, b % n
    extra_sk, extra_msg = KEY_POOL[(a // 3) % len(KEY_POOL)], b"extra-%d" % (b % 5)
    if pert in ("none", "permute", "regroup"):
        if pert == "permute":
            order = sorted(range(n), key=lambda q: (q * 7 + a) % (n + 1))
            pks, dlogs, msgs = [pks[q] for q in order], [dlogs[q] for q in order], [msgs[q] for q in order]
    elif pert == "drop_sig":
        A = blssig.aggregate_points(pts[:i] + pts[i + 1:])
    elif pert == "dup_sig":
        A = B.g2_add(A, pts[i])
    elif pert == "subst_sig":
        A = blssig.aggregate_points(pts[:i] + [sig_point(suite, extra_sk, msgs[i]) if b % 2 else
                                               sig_point(suite, sks[i], extra_msg)] + pts[i + 1:])
    elif pert == "drop_signer":
        pks, dlogs, msgs = pks[:i] + pks[i + 1:], dlogs[:i] + dlogs[i + 1:], msgs[:i] + msgs[i + 1:]
    elif pert == "swap_msgs":
        msgs = list(msgs)
        msgs[i], msgs[j] = msgs[j], msgs[i]
    elif pert == "swap_keys":
        pks, dlogs = list(pks), list(dlogs)
        pks[i], pks[j] = pks[j], pks[i]
        dlogs[i], dlogs[j] = dlogs[j], dlogs[i]
    elif pert == "extra_msg":
        msgs = msgs + [extra_msg]
    elif pert == "drop_msg":
        # all keys and the aggregate over all of them kept, one message missing (length mismatch)
        msgs = msgs[:i] + msgs[i + 1:]
    elif pert == "dup_msg":
        msgs = msgs + [msgs[j]]
    elif pert == "extra_key":
        pks, dlogs = pks + [pk_of(extra_sk)], dlogs + [extra_sk]
    elif pert == "neg_agg":
        A = BLS.neg("G2", A)
    elif pert == "agg_plus_sig":
        A = B.g2_add(A, sig_point(suite, extra_sk, extra_msg))
    elif pert == "agg_plus_torsion":
        A = B.g2_add(A, bc.small_point("G2", 13, 1) if b % 2 else bc.torsion_point("G2", a % 40))
    elif pert == "key_identity":
        pks, dlogs = list(pks), list(dlogs)
        pks[i], dlogs[i] = B.pubkey_bytes(None), None
        if a % 3:
            # the attack the key check exists for: an identity key contributes nothing to either side, so
            # the aggregate of the OTHER signers satisfies the pairing equation
            A = blssig.aggregate_points(pts[:i] + pts[i + 1:])
    elif pert == "key_non_subgroup":
        pks, dlogs = list(pks), list(dlogs)
        T = bc.small_point("G1", 3, 1) if b % 3 == 0 else bc.torsion_point("G1", a % 40)
        pks[i], dlogs[i] = B.pubkey_bytes(B.g1_add(B.pubkey_point(pks[i]), T)), None
    elif pert == "key_cancel_pair":
        # P_i + T and P_j - T: the sum of the keys (and, outside the augmentation suite, every pairing
        # factor) is what it would be for the valid keys - only per-key validation rejects them
        pks, dlogs = list(pks), list(dlogs)
        T = bc.small_point("G1", 11, 1) if b % 2 else bc.torsion_point("G1", a % 40)
        if n >= 2 and i != j:
            pks[i] = B.pubkey_bytes(B.g1_add(B.pubkey_point(pks[i]), T))
            pks[j] = B.pubkey_bytes(B.g1_add(B.pubkey_point(pks[j]), BLS.neg("G1", T)))
            dlogs[i] = dlogs[j] = None
        else:
            pks = pks + [B.pubkey_bytes(T), B.pubkey_bytes(BLS.neg("G1", T))]
            dlogs = dlogs + [None, None]
            if not fast:
                msgs = msgs + [b"cancel-1", b"cancel-2"]
    elif pert == "key_malformed":
        pks, dlogs = list(pks), list(dlogs)
        raw = pks[i]
        pks[i] = [raw[:47], raw + b"\x00", b"\x00" + raw, bytes([raw[0] & 0x7F]) + raw[1:], b""][b % 5]
        dlogs[i] = None
    elif pert == "empty":
        if b % 3 == 0:
            pks, dlogs, msgs = [], [], [] if not fast else msgs[:1]
        elif b % 3 == 1:
            pks, dlogs = [], []
        else:
            msgs = [] if not fast else msgs
            if fast:
                pks, dlogs = [], []
    agg = B.signature_bytes(A)
    if pert == "agg_bitflip":
        v = int.from_bytes(agg, "big") ^ (1 << (a % 768))
        agg = v.to_bytes(96, "big")
    elif pert == "agg_uncompressed" and A is not None:
        # the right point in the 192-byte uncompressed serialization: not the canonical encoding of the sum
        (x0_, x1_), (y0_, y1_) = A
        agg = b"".join(v.to_bytes(48, "big") for v in (x1_, x0_, y1_, y0_))
    elif pert == "agg_identity" or (pert == "empty" and a % 2 == 0):
        agg = B.signature_bytes(None)       # empty product of pairings equals one: must still be refused
    if fast and not msgs:
        msgs = [MSG_POOL[0]]
    return {"suite": suite, "entry": entry, "pks": [hx(p) for p in pks], "dlogs": dlogs,
            "msgs": [hx(m) for m in (msgs[:1] if fast else msgs)], "agg": hx(agg), "pert": pert}


def s_verify(nmax):
    idx = st.one_of(st.integers(0, 40), st.integers(0, 40), st.integers(0, 40), st.integers(500, 520),
                    st.just(1000))
    midx = st.one_of(st.integers(0, 40), st.integers(0, 40), st.integers(0, 40), st.integers(500, 520))
    n = st.one_of(st.integers(1, min(6, nmax)), st.integers(1, nmax))
    n_fast = st.one_of(st.integers(1, 6), st.integers(7, 40))
    pert = uniform_int(0, 10 ** 6).map(lambda i: PERTS[(i + 5) % len(PERTS)])
    fresh = st.one_of(st.just(0), st.just(0), uniform_int(1, R - 1))
    def case_for(fast):
        return (n_fast if fast else n).flatmap(lambda k: st.tuples(
            sc.s_suite(), st.just(fast), st.lists(idx, min_size=k, max_size=k),
            st.lists(midx, min_size=k, max_size=k), pert, st.integers(0, 10 ** 6), st.integers(0, 10 ** 6), fresh))
    return st.sampled_from([False, False, True]).flatmap(case_for).map(build)


def s_aggregate():
    def mk(t):
        suite, entries, kind, a = t
        sigs = []
        classes = set()
        for e, sk_i, m_i in entries:
            if e == 0:
                sigs.append(B.signature_bytes(sig_point(suite, KEY_POOL[sk_i % len(KEY_POOL)], MSG_POOL[m_i % 12])))
            elif e == 1:
                sigs.append(B.signature_bytes(bc.torsion_point("G2", sk_i % 30)))
            elif e == 3:
                # an on-curve point whose y is purely real or purely imaginary, with either sign
                zc, c = None, 1 + sk_i
                while zc is None or zc[1] != ("y_re=0" if m_i % 2 else "y_im=0"):
                    zc, c = bc.g2_zero_component(c), c + 1
                sigs.append(B.signature_bytes(zc[0] if m_i % 4 < 2 else B.g2_mul(zc[0], -1)))
                classes.add("zero_component:" + zc[1])
            elif e == 4 and sigs:
                sigs.append(B.signature_bytes(B.g2_mul(B.signature_point(sigs[sk_i % len(sigs)]), -1)))   # -(earlier entry)
                classes.add("inverse_of_entry")
            elif e == 5 and sigs:
                sigs.append(sigs[sk_i % len(sigs)])                                                      # an entry twice
                classes.add("repeated_entry")
            else:
                sigs.append(B.signature_bytes(None))
        case = {"suite": suite, "sigs": [hx(s) for s in sigs], "classes": sorted(classes)}
        n = len(sigs)
        if kind == 1 and n:
            case["perm"] = sorted(range(n), key=lambda q: (q * 5 + a) % (n + 2))
        elif kind == 2 and n >= 2:
            cut1, cut2 = 1 + a % (n - 1), 1 + (a // 7) % (n - 1)
            lo, hi = min(cut1, cut2), max(cut1, cut2)
            case["groups"] = [list(range(0, lo)), list(range(lo, hi)), list(range(hi, n))]
        elif kind == 3:
            k = a % (n + 1)
            unc = bytes(192)
            if sigs and B.signature_point(sigs[0]) is not None:
                (x0_, x1_), (y0_, y1_) = B.signature_point(sigs[0])         # the uncompressed form of a valid entry
                unc = b"".join(v.to_bytes(48, "big") for v in (x1_, x0_, y1_, y0_))
            bad = [b"", sigs[0][:95] if sigs else b"\x00" * 95, (sigs[0] if sigs else b"\xc0" + bytes(95)) + b"\x00",
                   bytes(48), unc][a % 5]
            case["sigs"] = [hx(s) for s in sigs[:k] + [bad] + sigs[k:]]
        elif kind == 4:
            case["sigs"] = []
        return case
    entry = st.tuples(st.sampled_from([0, 0, 0, 0, 0, 1, 2, 3, 3, 4, 5]), st.integers(0, 40), st.integers(0, 40))
    sizes = st.one_of(st.integers(1, 6), st.integers(1, 6), st.integers(7, 40))
    return st.tuples(sc.s_suite(), sizes.flatmap(lambda k: st.lists(entry, min_size=k, max_size=k)),
                     st.sampled_from([0, 1, 1, 2, 2, 3, 4]), st.integers(0, 10 ** 6)).map(mk)


def t_verify(ctx, shard, nshards, n, nmax):
    ex = []
    k = 0
    for pert in PERTS:
        for fast in (False, True):
            suite = sc.SUITES[k % 3]
            k += 1
            nn = 3 + k % 3
            ex.append(build((suite, fast, [k, k + 1, 500, k + 3, 1000][:nn], [k, k + 2, 500 + k, k + 5, k + 6][:nn],
                             pert, 100 + k, 7 + k, 0)))
    # a single signer through the aggregate entry points: must agree with Verify (honest accepted; another message's,
    # another key's and the key-prefixed message's signature refused)
    for i, sname in enumerate(sc.SUITES):
        for pert in ("none", "subst_sig", "swap_keys", "neg_agg"):
            ex.append(build((sname, False, [3 + i], [4 + i], pert, 50 + i, 9 + i, 0)))
        ex.append(build((sname, True, [6 + i], [2 + i], "none", 60 + i, 3 + i, 0)))
    # zero-sum FastAggregateVerify with the honest (identity) aggregate
    for sname in sc.SUITES:
        # no signer at all, identity aggregate: the empty product of pairings equals one - must be refused
        ex.append({"suite": sname, "entry": "AggregateVerify", "pks": [], "dlogs": [], "msgs": [],
                   "agg": hx(B.signature_bytes(None)), "pert": "empty"})
    ex.append({"suite": "pop", "entry": "FastAggregateVerify", "pks": [], "dlogs": [], "msgs": [hx(b"m")],
               "agg": hx(B.signature_bytes(None)), "pert": "empty"})
    ex.append(build(("pop", True, [4, 1000], [3, 3], "none", 1, 1, 0)))
    ex.append(build(("pop", False, [4, 1000], [3, 3], "none", 10, 1, 0)))          # honest aggregate = identity: must verify
    ex.append(build(("pop", False, [4, 1000, 7, 1000], [3, 3, 3, 3], "permute", 20, 1, 0)))
    ex.append(build(("basic", False, [1, 2, 3], [500, 500, 500], "none", 1, 1, 0)))
    ex.append(build(("aug", False, [1, 500, 500], [2, 500, 500], "none", 1, 1, 0)))
    drive(ctx, f"verify{shard}", s_verify(nmax), lambda c: o_verify(ctx, c), n, ex[shard::nshards], shrink=False)


def t_aggregate(ctx, shard, n):
    ex = [{"suite": "basic", "sigs": []}, {"suite": "pop", "sigs": [hx(b"\x00" * 95)]},
          {"suite": "aug", "sigs": [hx(B.signature_bytes(B.G2)), hx(B.signature_bytes(None))], "perm": [1, 0]}]
    for kind in ("y_re=0", "y_im=0"):
        zc, c = None, 1
        while zc is None or zc[1] != kind:
            zc, c = bc.g2_zero_component(c), c + 1
        for sg in (1, -1):
            ex.append({"suite": sc.SUITES[len(ex) % 3], "classes": ["zero_component:" + kind], "perm": [1, 0],
                       "sigs": [hx(B.signature_bytes(B.g2_mul(zc[0], sg))), hx(B.signature_bytes(B.G2))]})
    drive(ctx, f"aggregate{shard}", s_aggregate(), lambda c: o_aggregate(ctx, c), n, ex if shard == 0 else (),
          shrink=False)


def t_derived(ctx, shard, n):
    strat = st.fixed_dictionaries({"suite": sc.s_suite(), "idxs": st.lists(st.integers(0, 40), min_size=2, max_size=3),
                                   "tag": st.sampled_from(sc.APP_TAGS).map(hx)})
    ex = [{"suite": sc.SUITES[shard % 3], "idxs": [shard, shard + 4], "tag": hx(sc.APP_TAGS[0])}]
    drive(ctx, f"derived{shard}", strat, lambda c: o_derived(ctx, c), n, ex, shrink=False)


def t_large(ctx, shard, n_signers):
    """thorough: large signer sets, honest and with one perturbation."""
    for k, pert in enumerate(("none", "drop_sig", "swap_keys", "key_non_subgroup")):
        idxs = [(3 * q + shard) % 41 for q in range(n_signers)]
        idxs[5] = 502
        midx = [(q + shard) % 36 for q in range(n_signers)]
        for fast in (False, True):
            o_verify(ctx, build((sc.SUITES[(shard + k) % 3], fast, idxs, midx, pert, 11 + k, 5 + shard, 0)))


def tasks(tier):
    selfcheck()
    q = tier == "quick"
    ns = 14
    out = [Task(f"verify-{s}", "t_verify", shard=s, nshards=ns, n=11 if q else 260, nmax=6 if q else 12)
           for s in range(ns)]
    out += [Task(f"aggregate-{s}", "t_aggregate", shard=s, n=60 if q else 2500) for s in range(2)]
    out += [Task(f"derived-{s}", "t_derived", shard=s, n=1 if q else 40) for s in range(3)]
    if not q:
        out += [Task(f"large-{s}", "t_large", shard=s, n_signers=[16, 24, 32, 20][s % 4]) for s in range(8)]
    return out
