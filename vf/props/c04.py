"""C04 - verification is total and rejects malformed or unsafe keys and signatures."""
import functools

from hypothesis import strategies as st

from vf.harness import HarnessError, Task, drive, hx, run_cases_optimized, same_by_name, unhx
from vf.model import bls12381 as B
from vf.model import blssig
from vf.model.curves import BLS
from vf.props import _bls_common as bc
from vf.props import _sig_common as sc
from vf.strategies import sized_binary, uniform_int

P, R = B.P, B.R
RULE = ("a structure-aware byte mutator produces public-key and signature strings of length 0..200 from honest "
        "(pk, sig, message) triples and model-built special points: unchanged; truncated to every shorter "
        "length; extended by leading / trailing / inner bytes (0x00, 0x01, 0xff, random); the eight flag "
        "combinations on a valid x and on x in {0, 1, p-1, p, p+1, 2^381-1}; x not on the curve; on-curve points "
        "outside the subgroup (full cofactor component, order 3 / 11 on E1 incl. (0,+-2), order 13 / 23 on E2, "
        "kG+T); identity encodings 0xc0.., 0xe0.., 0x40..; random bytes - placed at every position of a 1-4 "
        "element key list; plus key LISTS whose pairing equation still holds although members are unsafe (keys differing from valid ones by cofactor torsion, cancelling pairs P+T / Q-T, T and -T appended, three order-3 points, an appended identity). Oracles: (i) KeyValidate, Verify, AggregateVerify (3 suites), FastAggregateVerify and "
        "PopVerify return a bool and never raise; (ii) the result is False whenever the key is not a canonical "
        "48-byte encoding of a non-identity subgroup point or the signature is not a canonical 96-byte encoding "
        "of a subgroup point, and KeyValidate(b) equals the model predicate exactly; (iii) a wrapper around the "
        "pairing function used by the ciphersuites checks every argument pair in the model: Q on E2 and in the "
        "subgroup, P on E1, in the subgroup and not the identity. Non-trivial = a near-valid input (right length "
        "but non-canonical / off-curve / non-subgroup / identity, or valid content with a wrong length); "
        "distinct by input digest")
ASSUMPTIONS = ["model decoder and exact subgroup membership (vf/model/bls12381.py)",
               "byte strings are of type bytes (the documented argument type)"]
ENGINE = "hypothesis (structure-aware byte mutation) + atheris in the thorough tier"
TECHNIQUE = ("structure-aware fuzzing: Hypothesis byte mutator and exhaustive length grids, atheris/libFuzzer coverage-guided campaigns in the thorough tier; oracles = totality, model validity predicate, pairing-argument monitor")
MUTS = ("valid", "truncated", "extended_lead", "extended_trail", "extended_mid", "flags", "second_word_flags", "special_x", "off_curve",
        "non_subgroup", "zero_component", "small_order", "kG+T", "identity_enc", "uncompressed", "random")
_REQ = ([f"pk:{m}" for m in MUTS] + [f"sig:{m}" for m in MUTS] +
        ["entry:KeyValidate", "entry:Verify", "entry:AggregateVerify", "entry:FastAggregateVerify",
         "entry:PopVerify", "pairing_calls_checked", "python_-O:cases", "accepted:honest", "pos:last", "pos:first",
         "keyvalidate:True", "keyvalidate:False"] + [f"list:{m}" for m in (
             "none", "valid_zero_sum", "plus_torsion", "cancel_pair", "cancel_triple", "identity_extra", "small_order_pair",
             "malformed_member", "off_curve_member", "bad_member_prefix_aggregate")] + ["accepted:honest_list"])
REQUIRED_LABELS = {"quick": _REQ, "thorough": _REQ}


def selfcheck():
    B.selfcheck()
    if B.valid_pubkey(B.pubkey_bytes(None)) or not B.valid_pubkey(B.pubkey_bytes(B.G1)):
        raise HarnessError("model key predicate wrong")
    if B.valid_pubkey(b"\x00" + B.pubkey_bytes(B.G1)):
        raise HarnessError("model key predicate accepts over-long keys")


# ---- pairing monitor --------------------------------------------------------------------------------
_mon = {"installed": False, "calls": [], "problems": []}


@functools.lru_cache(maxsize=8192)
def _g2_ok(q):
    return q is None or (B.g2_on_curve(q) and B.g2_in_subgroup(q))


@functools.lru_cache(maxsize=8192)
def _g1_ok(p):
    return p is not None and B.g1_on_curve(p) and B.g1_in_subgroup(p)


def install_monitor():
    if _mon["installed"]:
        return

    def observe(Q, Pt):
        try:
            q, p = bc.back("G2", Q), bc.back("G1", Pt)
            _mon["calls"].append(1)
            if not _g2_ok(q):
                _mon["problems"].append(f"pairing evaluated on a G2 argument that is off the curve or outside "
                                        f"the subgroup: {q}")
            if not _g1_ok(p):
                _mon["problems"].append(f"pairing evaluated on a G1 argument that is the identity, off the curve "
                                        f"or outside the subgroup: {p}")
        except Exception as e:  # noqa - a malformed argument object is itself a finding
            _mon["problems"].append(f"pairing called with malformed arguments: {e!r}")

    try:
        bc.install_pairing_monitor(observe)
    except RuntimeError as e:
        raise HarnessError(f"{e}: the pairing-argument monitor of C04 has to be re-anchored")
    _mon["installed"] = True


# ---- honest material (model-made, cached) --------------------------------------------------------------
@functools.lru_cache(maxsize=64)
def honest(suite, i):
    sk = 1000 + 17 * i
    msg = b"c04-message-%d" % i
    return sk, blssig.sk_to_pk(sk), msg, blssig.sign(suite, sk, msg)


@functools.lru_cache(maxsize=8)
def honest_pop(i):
    sk = 1000 + 17 * i
    return blssig.pop_prove(sk)


# ---- the oracle ---------------------------------------------------------------------------------------
def _call(ctx, case, sub, entry, fn, must_be_false, why):
    _mon["problems"].clear()
    n0 = len(_mon["calls"])
    try:
        out = fn()
    except Exception as e:  # noqa: totality is the property
        ctx.violation(sub, f"raised:{entry}:{type(e).__name__}", case,
                      f"{entry} raised {type(e).__name__}: {e}"[:400])
        return None
    ctx.check(type(out) is bool, sub, f"not_bool:{entry}", case, f"{entry} returned {out!r}")
    if _mon["problems"]:
        ctx.violation(sub, f"unsafe_pairing:{entry}", case, f"{entry}: " + _mon["problems"][0][:300])
    if len(_mon["calls"]) > n0:
        ctx.label("pairing_calls_checked", len(_mon["calls"]) - n0)
    if must_be_false:
        ctx.check(out is False, sub, f"accepted:{entry}", case, f"{entry} returned True although {why}")
    ctx.label(f"entry:{entry}")
    return out


def o_case(ctx, case):
    install_monitor()
    suite = case["suite"]
    pk, sig, msg = unhx(case["pk"]), unhx(case["sig"]), unhx(case["msg"])
    n, pos = case.get("n", 1), case.get("pos", 0)
    ctx.begin("total", case)
    S = sc.lib_suite(suite)
    pk_ok, sig_ok = B.valid_pubkey(pk), B.valid_signature(sig)
    why = []
    if not pk_ok:
        why.append(f"the key ({case.get('pk_mut')}) is not a canonical encoding of a non-identity subgroup point")
    if not sig_ok:
        why.append(f"the signature ({case.get('sig_mut')}) is not a canonical encoding of a subgroup point")
    bad = not (pk_ok and sig_ok)
    why = " and ".join(why)
    kv = _call(ctx, case, "total", "KeyValidate", lambda: S.KeyValidate(pk), False, "")
    if kv is not None:
        ctx.check(kv == pk_ok, "total", "keyvalidate_accepts" if kv else "keyvalidate_rejects", case,
                  f"KeyValidate = {kv}, model predicate = {pk_ok} ({case.get('pk_mut')}, {len(pk)} bytes)")
        ctx.label(f"keyvalidate:{pk_ok}")
    v = _call(ctx, case, "total", "Verify", lambda: S.Verify(pk, msg, sig), bad, why)
    if case.get("n", 1) == 1 and isinstance(v, bool):
        same_by_name(ctx, "total", case, S.Verify, (pk, msg, sig), v, "Verify")
    if case.get("honest") and not bad:
        ctx.check(v is True, "total", "honest_rejected", case, "an unmodified honest triple was rejected")
        ctx.label("accepted:honest")
    # key list with the mutated key at position pos
    others = [honest(suite, 10 + j) for j in range(n - 1)]
    pks = [o[1] for o in others]
    msgs = [o[2] for o in others]
    pks.insert(pos, pk)
    msgs.insert(pos, msg)
    if suite == "basic" and len(set(msgs)) != len(msgs):
        raise HarnessError("helper messages collide")
    _call(ctx, case, "total", "AggregateVerify", lambda: S.AggregateVerify(pks, msgs, sig), bad, why)
    if suite == "pop":
        _call(ctx, case, "total", "FastAggregateVerify", lambda: S.FastAggregateVerify(pks, msg, sig), bad, why)
        _call(ctx, case, "total", "PopVerify", lambda: S.PopVerify(pk, sig), bad, why)
    ctx.label(f"pk:{case.get('pk_mut')}")
    ctx.label(f"sig:{case.get('sig_mut')}")
    if n > 1:
        ctx.label("pos:first" if pos == 0 else ("pos:last" if pos == n - 1 else "pos:middle"))
    near = False
    for b, ok, nominal, mut in ((pk, pk_ok, 48, case.get("pk_mut")), (sig, sig_ok, 96, case.get("sig_mut"))):
        if not ok and (len(b) == nominal and mut != "random" or mut in ("truncated", "extended_lead",
                                                                         "extended_trail", "extended_mid")):
            near = True
    if near:
        ctx.nontrivial(("t", suite, case["pk"], case["sig"], case["msg"], n, pos))
    ctx.sample(case, f"{case.get('pk_mut')}/{case.get('sig_mut')}")


LIST_MUTS = ("none", "valid_zero_sum", "plus_torsion", "cancel_pair", "cancel_triple", "identity_extra", "small_order_pair",
             "malformed_member", "off_curve_member", "bad_member_prefix_aggregate")


def o_list(ctx, case):
    """Key LISTS whose pairing equation still holds although members are unsafe: the aggregate is the
    honest one, and the unsafe members contribute nothing (identity), cancel each other (P+T, Q-T) or
    differ from a valid key by cofactor torsion (e(H, pk+T) = e(H, pk)).  Only key validation can
    reject these; the model says every one of them must be refused."""
    install_monitor()
    suite, mut, n, a = case["suite"], case["mut"], case["n"], case["a"]
    ctx.begin("lists", case)
    S = sc.lib_suite(suite)
    sks = [2000 + 13 * (a % 7) + 5 * j for j in range(n)]
    pts = [B.g1_mul(B.G1, k) for k in sks]
    common = b"c04-list-%d" % (a % 3)
    msgs = [b"c04-list-%d-%d" % (a % 3, j) for j in range(n)]
    # the torsion component: full cofactor component, or of order 11 or 3 (the smaller the order, the likelier a
    # randomised or batched subgroup test lets it through: 1 in 3 for order 3)
    T = [BLS.mul("G1", bc.small_point("G1", 3, 1), 2), bc.torsion_point("G1", a % 50),
         bc.small_point("G1", 11, 1 + a % 3), bc.small_point("G1", 3, 1)][a % 4]
    keys = list(pts)
    extra_msgs = []
    if mut == "valid_zero_sum":
        # every key individually valid, the list sums to the identity: P1..Pn, -P1..-Pn (or one pair)
        keys = keys[:1 + a % n]
        keys = keys + [BLS.neg("G1", k) for k in keys]
        if a % 3 == 0:
            keys = keys[::2] + keys[1::2]
    elif mut == "plus_torsion":
        keys[a % n] = B.g1_add(keys[a % n], T)
    elif mut == "cancel_pair":
        i, j = a % n, (a + 1) % n
        keys[i], keys[j] = B.g1_add(keys[i], T), B.g1_add(keys[j], BLS.neg("G1", T))
    elif mut == "cancel_triple":
        keys += [T, BLS.neg("G1", T)]
        extra_msgs = [b"extra-1", b"extra-2"]
    elif mut == "identity_extra":
        keys.insert(a % (n + 1), None)
        extra_msgs = [b"extra-1"]
    elif mut == "small_order_pair":
        T3 = bc.small_point("G1", 3, 1)
        keys += [T3, T3, T3]                      # 3 * T3 = O
        extra_msgs = [b"extra-1", b"extra-2", b"extra-3"]
    pks = [B.pubkey_bytes(k) for k in keys]
    if mut == "malformed_member":
        raw = pks[a % n]
        pks[a % n] = [raw[:47], b"\x00" + raw, raw + b"\x00", bytes([raw[0] ^ 0x80]) + raw[1:]][a % 4]
    elif mut == "off_curve_member":
        pks[a % n] = mutate("G1", pks[a % n], "off_curve", a, a % 5, b"")
    ok = mut == "none"
    if mut == "bad_member_prefix_aggregate":
        # an unusable key at position i and the honest aggregate of the signers BEFORE it (the identity for
        # i = 0): a verifier that stops at the first bad key instead of rejecting sees a valid prefix
        i = a % n
        bad_keys = [B.pubkey_bytes(None), B.pubkey_bytes(bc.torsion_point("G1", a % 50)),
                    B.pubkey_bytes(B.g1_add(pts[i], bc.small_point("G1", 3, 1))),
                    bytes([pks[i][0] & 0x7F]) + pks[i][1:], pks[i][:47], (B.P + 1).to_bytes(48, "big")]
        pks[i] = bad_keys[(a // 4) % len(bad_keys)]
        hp_ = [B.pubkey_bytes(p_) for p_ in pts]
        prefix = B.signature_bytes(blssig.aggregate_points(
            [blssig.core_sign_point(k, (hp + m if suite == "aug" else m), blssig.DST[suite])
             for k, hp, m in list(zip(sks, hp_, msgs))[:i]]))
        _call(ctx, case, "lists", "AggregateVerify", lambda: S.AggregateVerify(pks, msgs, prefix), True,
              f"key {i} of {n} is unusable; the signature aggregates only the signers before it")
        if suite == "pop":
            fpre = B.signature_bytes(blssig.aggregate_points([blssig.sign_point("pop", k, common) for k in sks[:i]]))
            _call(ctx, case, "lists", "FastAggregateVerify", lambda: S.FastAggregateVerify(pks, common, fpre), True,
                  f"key {i} of {n} is unusable; the signature aggregates only the signers before it")
        ctx.label(f"list:{mut}")
        ctx.nontrivial(("l", suite, mut, n, a))
        ctx.sample(case, f"list:{mut}")
        return
    if mut == "valid_zero_sum":
        # FastAggregateVerify must answer False (the aggregate key is the identity) without raising;
        # AggregateVerify with one message per key and an unrelated aggregate must answer False
        if suite == "pop":
            for sig_ in (B.signature_bytes(None), blssig.sign("pop", sks[0], common)):
                _call(ctx, case, "lists", "FastAggregateVerify", lambda: S.FastAggregateVerify(pks, common, sig_), True,
                      "the keys sum to the identity")
        if suite == "pop":
            # with ONE shared message the key pairings cancel, so the identity signature satisfies the equation;
            # its seven non-canonical spellings (flag bits in the second word) must still be refused
            for kflag in range(1, 8):
                bad_inf = B.signature_bytes(None)[:48] + bytes([kflag << 5]) + bytes(47)
                _call(ctx, case, "lists", "AggregateVerify",
                      lambda: S.AggregateVerify(pks, [common] * len(pks), bad_inf), True,
                      "the signature is a non-canonical encoding of the identity")
        zmsgs = [b"zero-sum-%d" % q for q in range(len(pks))]
        _call(ctx, case, "lists", "AggregateVerify", lambda: S.AggregateVerify(pks, zmsgs, B.signature_bytes(None)), True,
              "the identity signature is not the aggregate of these signers")
        ctx.label(f"list:{mut}")
        ctx.nontrivial(("l", suite, mut, n, a))
        ctx.sample(case, f"list:{mut}")
        return
    if not ok and all(B.valid_pubkey(p) for p in pks):
        raise HarnessError("list mutation produced only valid keys")
    why = f"the key list contains an unsafe member ({mut})"
    # FastAggregateVerify: one message, aggregate of the honest signers' signatures
    if suite == "pop":
        agg = B.signature_bytes(blssig.aggregate_points([blssig.sign_point("pop", k, common) for k in sks]))
        out = _call(ctx, case, "lists", "FastAggregateVerify", lambda: S.FastAggregateVerify(pks, common, agg), not ok, why)
        if ok:
            ctx.check(out is True, "lists", "honest_list_rejected:FastAggregateVerify", case, "honest key list rejected")
    # AggregateVerify: per-signer messages; unsafe extra members get messages of their own.  In the
    # augmentation suite a changed key changes the signed message, so only the other suites keep the
    # equation intact - the expected verdict (False) is the same everywhere.
    all_msgs = list(msgs)
    if mut == "identity_extra":
        all_msgs.insert(a % (n + 1), extra_msgs[0])
    else:
        all_msgs += extra_msgs
    honest_pks = [B.pubkey_bytes(p) for p in pts]
    agg2 = B.signature_bytes(blssig.aggregate_points(
        [blssig.core_sign_point(k, (hp + m if suite == "aug" else m), blssig.DST[suite])
         for k, hp, m in zip(sks, honest_pks, msgs)]))
    out = _call(ctx, case, "lists", "AggregateVerify", lambda: S.AggregateVerify(pks, all_msgs, agg2), not ok, why)
    if ok:
        ctx.check(out is True, "lists", "honest_list_rejected:AggregateVerify", case, "honest key list rejected")
        ctx.label("accepted:honest_list")
    ctx.label(f"list:{mut}")
    if not ok:
        ctx.nontrivial(("l", suite, mut, n, a))
    ctx.sample(case, f"list:{mut}")


ORACLES = {"total": o_case, "lists": o_list}

# ---- the mutator --------------------------------------------------------------------------------------
SPECIAL_X = (0, 1, P - 1, P, P + 1, (1 << 381) - 1)


def mutate(g, base: bytes, mut: str, a: int, b: int, blob: bytes) -> bytes:
    """g = 'G1' (48-byte keys) or 'G2' (96-byte signatures).  a, b are auxiliary integers."""
    nominal = 48 if g == "G1" else 96
    if mut == "valid":
        return base
    if mut == "truncated":
        return base[:a % nominal]
    fill = [b"\x00", b"\x01", b"\xff", blob[:1] or b"\x7f"][b % 4]
    k = 1 + a % (200 - nominal)
    if b % 8 >= 4:
        k = 1 + a % 3
    if mut == "extended_lead":
        return fill * k + base
    if mut == "extended_trail":
        return base + fill * k
    if mut == "extended_mid":
        cut = (a // 7) % nominal
        if g == "G2" and a % 3 == 0:
            cut, fill = 48, b"\x00"          # zero bytes exactly between the two 48-byte words: the second
            #                                    word keeps its integer value if it is read as "everything after byte 48"
        return base[:cut] + fill * k + base[cut:]
    if mut == "flags":
        v = int.from_bytes(base, "big")
        top = nominal * 8 - 3
        v = (v & ((1 << top) - 1)) | ((a % 8) << top)
        if g == "G2" and b % 3 == 0:
            v |= (1 + b % 7) << 381              # flag bits in the second word
        return v.to_bytes(nominal, "big")
    if mut == "second_word_flags":
        # everything else untouched: only the three top bits of the second 48-byte word (G2), or a
        # re-encoding x + p of the first word where it still fits in 381 bits (G1/G2)
        v = int.from_bytes(base, "big")
        if g == "G2" and b % 4:
            return (v | ((1 + a % 7) << 381)).to_bytes(96, "big")
        top = nominal * 8 - 3
        x = (v >> (0 if g == "G1" else 384)) & ((1 << 381) - 1)
        if x + P < (1 << 381):
            return (v + (P << (0 if g == "G1" else 384))).to_bytes(nominal, "big")
        return (v ^ (1 << (top + 2))).to_bytes(nominal, "big")         # fall back: clear the compression flag
    if mut == "special_x":
        x = SPECIAL_X[a % len(SPECIAL_X)]
        flags = [4, 5, 6, 7, 0, 2][b % 6]
        if g == "G1":
            return ((flags << 381) | x).to_bytes(48, "big")
        x0 = SPECIAL_X[(a // 6) % len(SPECIAL_X)]
        return ((flags << 381) | x).to_bytes(48, "big") + x0.to_bytes(48, "big")
    if mut == "off_curve":
        x = a % P
        while True:
            xx = x if g == "G1" else (x, (a >> 200) % P)
            if BLS.lift_x(g, xx) is None:
                break
            x += 1
        flags = 4 + b % 2
        if g == "G1":
            return ((flags << 381) | x).to_bytes(48, "big")
        return ((flags << 381) | xx[1]).to_bytes(48, "big") + xx[0].to_bytes(48, "big")
    enc = B.pubkey_bytes if g == "G1" else B.signature_bytes
    if mut == "non_subgroup":
        pt = bc.torsion_point(g, a % 60) if b % 2 else bc.seed_point(g, a % 60)
        return enc(pt)
    if mut == "zero_component":
        if g == "G1":
            return enc(bc.seed_point("G1", a % 97))
        cc = 1 + a % 60
        zc = bc.g2_zero_component(cc)
        while zc is None:
            cc += 1
            zc = bc.g2_zero_component(cc)
        return enc(zc[0] if b % 2 else BLS.neg("G2", zc[0]))       # y purely real or purely imaginary (non-subgroup)
    if mut == "small_order":
        ell = bc.SMALL_ORDERS[g][b % 2]
        pt = BLS.mul(g, bc.small_point(g, ell, 1 + a % 4), 1 + (a // 4) % (ell - 1))
        return enc(pt)
    if mut == "kG+T":
        base_pt = (B.pubkey_point if g == "G1" else B.signature_point)(base)
        T = bc.small_point(g, bc.SMALL_ORDERS[g][b % 2], 1) if b % 4 < 2 else bc.torsion_point(g, a % 60)
        return enc(BLS.add(g, base_pt, T))
    if mut == "uncompressed":
        # the ZCash UNCOMPRESSED serialization of the very same (valid) point: x || y with the flag bits clear,
        # 96 bytes for G1, 192 for G2 - a genuine encoding of the right point, but not the canonical one
        pt = (B.pubkey_point if g == "G1" else B.signature_point)(base)
        if pt is None:
            return bytes([0x40]) + bytes(2 * nominal - 1)
        if g == "G1":
            return pt[0].to_bytes(48, "big") + pt[1].to_bytes(48, "big")
        (x0, x1), (y0, y1) = pt
        return b"".join(v.to_bytes(48, "big") for v in (x1, x0, y1, y0))
    if mut == "identity_enc":
        lead = [0xC0, 0xE0, 0x40, 0xC0][b % 4]
        out = bytes([lead]) + bytes(nominal - 1)
        if b % 4 == 3:
            out = out[:-1] + b"\x01" if g == "G1" else out[:-1] + b"\x01"
        return out
    if mut == "random":
        return blob[:a % 201]
    raise AssertionError(mut)


def build(t):
    suite, i, pk_mut, sig_mut, a1, b1, a2, b2, blob1, blob2, n, pos, use_pop = t
    sk, pk, msg, sig = honest(suite, i % 6)
    if use_pop and suite == "pop":
        sig, msg = honest_pop(i % 6), pk           # PopVerify's honest pair (pk, proof)
    pos = pos % n
    return {"suite": suite, "pk": hx(mutate("G1", pk, pk_mut, a1, b1, blob1)),
            "sig": hx(mutate("G2", sig, sig_mut, a2, b2, blob2)), "msg": hx(msg), "pk_mut": pk_mut,
            "sig_mut": sig_mut, "n": n, "pos": pos, "honest": pk_mut == "valid" and sig_mut == "valid" and not use_pop}


def s_case():
    big = uniform_int(0, (1 << 400) - 1)
    small = st.integers(0, 47)
    real = MUTS[1:]
    mut = uniform_int(0, 10 ** 6).map(lambda i: real[(i + 3) % len(real)])
    # mostly one side mutated at a time (the other valid), sometimes both, rarely none (honest triple)
    pair = st.one_of(st.tuples(mut, st.just("valid")), st.tuples(st.just("valid"), mut), st.tuples(mut, mut),
                     st.tuples(mut, st.just("valid")), st.tuples(st.just("valid"), mut), st.tuples(mut, mut),
                     st.tuples(mut, st.just("valid")), st.tuples(st.just("valid"), mut), st.tuples(mut, mut),
                     st.just(("valid", "valid")))
    return st.tuples(sc.s_suite(), st.integers(0, 5), pair, big, small, big, small, st.binary(max_size=200),
                     st.binary(max_size=200), st.integers(1, 4), st.integers(0, 3), st.booleans()).map(
        lambda t: build((t[0], t[1], t[2][0], t[2][1]) + t[3:]))


def t_total(ctx, shard, nshards, n):
    ex = []
    # pinned: every mutation kind on either side, each suite; F2's inputs; every truncation length
    k = 0
    for m in MUTS:
        for side in (0, 1):
            suite = sc.SUITES[k % 3]
            k += 1
            ex.append(build((suite, k, m if side == 0 else "valid", m if side else "valid", 12345 + k, k, 777 + k,
                             k + 1, b"\x5a" * 60, b"\xa5" * 120, 1 + k % 4, k, False)))
    for suite_ in sc.SUITES:
        sk, pk, msg, sig = honest(suite_, 2)
        for k_ in (1, 2, 48):
            ex.append({"suite": suite_, "pk": hx(pk), "sig": hx(sig[:48] + bytes(k_) + sig[48:]), "msg": hx(msg),
                       "pk_mut": "valid", "sig_mut": "extended_mid", "n": 1, "pos": 0, "honest": False})
    for lead in (b"\x00", b"\x01", b"\xff" * 10):
        sk, pk, msg, sig = honest("pop", 0)
        ex.append({"suite": "pop", "pk": hx(lead + pk), "sig": hx(sig), "msg": hx(msg), "pk_mut": "extended_lead",
                   "sig_mut": "valid", "n": 2, "pos": 1, "honest": False})
    if shard == 0:
        # one case of every mutation kind on either side, and the mid-padded signatures, again in an interpreter
        # started with -O (validation written as `assert` vanishes there)
        run_cases_optimized(ctx, "C04", [{"sub": "total", "case": c} for c in ex[:2 * len(MUTS):3] + ex[2 * len(MUTS):]])
    drive(ctx, f"total{shard}", s_case(), lambda c: o_case(ctx, c), n, ex[shard::nshards], shrink=False)


def t_lists(ctx, shard, n):
    from vf.strategies import uniform_int as ui
    strat = st.fixed_dictionaries({"suite": sc.s_suite(), "mut": st.sampled_from(LIST_MUTS), "n": st.integers(2, 4),
                                   "a": st.integers(0, 10 ** 6)})
    ex = [{"suite": sc.SUITES[(i + shard) % 3], "mut": m, "n": 2 + i % 2, "a": 3 * i + shard} for i, m in enumerate(LIST_MUTS)]
    ex += [{"suite": "pop", "mut": m, "n": 2, "a": 5 + shard} for m in ("cancel_pair", "cancel_triple", "small_order_pair",
                                                                        "valid_zero_sum")]
    if shard >= 3:
        ex = []
    ex += [{"suite": sc.SUITES[(j + shard) % 3], "mut": "bad_member_prefix_aggregate", "n": 2 + j % 2, "a": 4 * (3 * shard + j) + (j + shard) % 4}
           for j in range(3)]
    # an honest key plus a point of order 3, NOT in first position, with the honest aggregate, in the suites where the
    # pairing equation then still holds: distinct lists, because a randomised check errs on a fraction of them only
    ex += [{"suite": "basic", "mut": "plus_torsion", "n": 2 + (j % 2) * 2, "a": 4 * j + 3}
           for j in range(12) if j % 4 == shard % 4 and (4 * j + 3) % (2 + (j % 2) * 2) != 0]
    drive(ctx, f"lists{shard}", strat, lambda c: o_list(ctx, c), n, ex, shrink=False)


def t_lengths(ctx, suite):
    """every truncation length of a key and of a signature (finite, complete)."""
    sk, pk, msg, sig = honest(suite, 1)
    cnt = 0
    for L in range(0, 48):
        o_case(ctx, {"suite": suite, "pk": hx(pk[:L]), "sig": hx(sig), "msg": hx(msg), "pk_mut": "truncated",
                     "sig_mut": "valid", "n": 1, "pos": 0})
        cnt += 1
    for L in range(0, 96):
        o_case(ctx, {"suite": suite, "pk": hx(pk), "sig": hx(sig[:L]), "msg": hx(msg), "pk_mut": "valid",
                     "sig_mut": "truncated", "n": 1, "pos": 0})
        cnt += 1
    ctx.subspace(f"{suite}: all truncation lengths 0..47 of a key and 0..95 of a signature", cnt)


def t_fuzz(ctx, worker, runs, empty):
    """atheris campaign over the byte-level decoders with this module's oracle inside the target."""
    from vf.harness import run_fuzz_campaign
    run_fuzz_campaign(ctx, "c04", runs, ctx.seed_for("fuzz", worker), empty_corpus=empty)


def tasks(tier):
    selfcheck()
    q = tier == "quick"
    ns = 13
    out = [Task(f"total-{s}", "t_total", shard=s, nshards=ns, n=70 if q else 2500) for s in range(ns)]
    for suite in sc.SUITES:
        out.append(Task(f"lengths-{suite}", "t_lengths", suite=suite))
    for s in range(4):
        out.append(Task(f"lists-{s}", "t_lists", shard=s, n=6 if q else 300))
    if not q:
        for w in range(10):
            out.append(Task(f"fuzz-{w}", "t_fuzz", worker=w, runs=3000, empty=w >= 8))
    return out
