"""C05 - pairings are bilinear, non-degenerate, unit on infinity, and refuse off-curve input."""
from hypothesis import strategies as st

from vf.harness import HarnessError, Task, drive
from vf.model import curves as mc
from vf.props import _pairing_common as pc
from vf.props._curve_common import mod
from vf.strategies import uniform_int

RULE = ("for each of the four pairing modules, scalars a, b, a', b' from {0, 1, 2, 3, r-2, r-1, r}, every bit "
        "length and uniform, optimized modules with independent random projective scalings of each argument "
        "and several representatives of infinity: pairing(bG2, aG1) == e0^(ab mod r) with e0 = pairing(G2, G1); "
        "pairing(Q+Q', P) == pairing(Q, P) pairing(Q', P) and the same in P, the sum formed by the model or by the module's own add() on differently scaled representatives (including Q' = Q); pairing(-Q, P) == pairing(Q, -P) == "
        "pairing(Q, P)^-1; e0 != 1 and e0^r == 1; infinity in either slot gives FQ12.one(); a right-typed point "
        "that is not on its curve (coordinate + 1, random coordinates, the origin (0, 0, z) and points with one zero coordinate, any scaling; the other argument a subgroup point or infinity) raises ValueError instead of "
        "returning a value. Non-trivial = ab != 0 mod r with max(a, b) >= 2^128, an additivity case with "
        "distinct non-zero summands, a scaled representative or an off-curve refusal; distinct by input digest")
ASSUMPTIONS = ["points are built by the affine model (vf/model/ec.py) from the published generators",
               "which bilinear map is computed is pinned by C12 (optimized == reference); C05 checks the laws"]
ENGINE = "hypothesis (algebraic laws)"
TECHNIQUE = ("property-based testing (Hypothesis) of algebraic laws: bilinearity, additivity, inversion, order r, unit on infinity, refusal of off-curve input")
_REQ = [f"{law}:{m}" for m in pc.MODULES for law in ("bilinear", "additive", "negation", "order", "infinity", "offcurve")]
_REQ += ["additive:library_sum", "additive:library_multiples", "bilinear:library_multiples", "additive:library_sum_of_equal_points", "bilinear:raw_first", "bilinear:scaled", "bilinear:big_scalars", "infinity:rep", "offcurve:other_argument_infinity", "offcurve:origin", "offcurve:valid_xy_other_z"]
REQUIRED_LABELS = {"quick": _REQ, "thorough": _REQ}


def _pair(name, Qm, Pm, sq=None, sp=None):
    return pc.pm(name).pairing(pc.lib_pt(name, "G2", Qm, scale=pc.unscale(sq)),
                               pc.lib_pt(name, "G1", Pm, scale=pc.unscale(sp)))


def o_bilinear(ctx, case):
    name, a, b = case["module"], case["a"], case["b"]
    curve = pc.CURVE_OF[name]
    C = mc.CURVES[curve]
    ctx.begin("bilinear", case)
    if name.startswith("optimized") and case.get("raw_first"):
        # the same representatives paired first without, then with the final exponentiation: the
        # value of pairing(Q, P) must not depend on what was computed for these points before
        Q = pc.lib_pt(name, "G2", pc.kG(curve, "G2", b), scale=pc.unscale(case.get("sq")))
        Pt = pc.lib_pt(name, "G1", pc.kG(curve, "G1", a), scale=pc.unscale(case.get("sp")))
        M = pc.pm(name)
        raw = M.pairing(Q, Pt, final_exponentiate=False)
        got = M.pairing(Q, Pt)
        ctx.check(pc.coeffs(M.final_exponentiate(raw)) == pc.coeffs(got), "bilinear", "raw_then_full", case,
                  f"{name}: final_exponentiate(pairing(Q, P, final_exponentiate=False)) != pairing(Q, P) for the same objects")
        ctx.label("bilinear:raw_first")
    elif case.get("lib_mul"):
        # bQ and aP formed by the module's own multiply() on its own generators, as a caller would
        Mc = mod(name).m
        got = pc.pm(name).pairing(Mc.multiply(Mc.G2, b), Mc.multiply(Mc.G1, a))
        ctx.label("bilinear:library_multiples")
    else:
        got = _pair(name, pc.kG(curve, "G2", b), pc.kG(curve, "G1", a), case.get("sq"), case.get("sp"))
    want = pc.e0(name) ** ((a * b) % C.r)
    ctx.check(type(got) is mod(name).FQ12, "bilinear", "type", case, f"pairing returned {type(got).__name__}")
    ctx.check(pc.coeffs(got) == pc.coeffs(want), "bilinear", "value", case,
              f"{name}: pairing({b}*G2, {a}*G1) != pairing(G2, G1)^(ab)")
    ctx.label(f"bilinear:{name}")
    scaled = case.get("sq") is not None or case.get("sp") is not None
    if scaled:
        ctx.label("bilinear:scaled")
    big = max(a, b) >= (1 << 128)
    if big:
        ctx.label("bilinear:big_scalars")
    if (a * b) % C.r and (big or scaled):
        ctx.nontrivial(("b", name, a, b, case.get("sq"), case.get("sp")))
    ctx.sample(case, f"bilinear:{name}")


def o_additive(ctx, case):
    name, a, b, c, slot = case["module"], case["a"], case["b"], case["c"], case["slot"]
    curve = pc.CURVE_OF[name]
    C = mc.CURVES[curve]
    ctx.begin("additive", case)
    lib_sum = case.get("lib_sum", False)
    M = mod(name).m
    if slot == "Q":
        Q1, Q2, Pm = pc.kG(curve, "G2", a), pc.kG(curve, "G2", b), pc.kG(curve, "G1", c)
        if lib_sum and case.get("lib_mul"):
            # both summands made by the module's own multiply() (0 and r give its own infinity), added by its add()
            S = M.add(M.multiply(M.G2, a), M.multiply(M.G2, b))
            lhs = pc.pm(name).pairing(S, pc.lib_pt(name, "G1", Pm, scale=pc.unscale(case.get("sp"))))
            ctx.label("additive:library_multiples")
        elif lib_sum:
            # the sum formed by the module's own add() on two (differently scaled) representatives
            S = M.add(pc.lib_pt(name, "G2", Q1, scale=pc.unscale(case.get("sq"))), pc.lib_pt(name, "G2", Q2))
            lhs = pc.pm(name).pairing(S, pc.lib_pt(name, "G1", Pm, scale=pc.unscale(case.get("sp"))))
        else:
            lhs = _pair(name, C.add("G2", Q1, Q2), Pm, case.get("sq"), case.get("sp"))
        rhs = _pair(name, Q1, Pm) * _pair(name, Q2, Pm)
    else:
        P1, P2, Qm = pc.kG(curve, "G1", a), pc.kG(curve, "G1", b), pc.kG(curve, "G2", c)
        if lib_sum and case.get("lib_mul"):
            S = M.add(M.multiply(M.G1, a), M.multiply(M.G1, b))
            lhs = pc.pm(name).pairing(pc.lib_pt(name, "G2", Qm, scale=pc.unscale(case.get("sq"))), S)
            ctx.label("additive:library_multiples")
        elif lib_sum:
            S = M.add(pc.lib_pt(name, "G1", P1, scale=pc.unscale(case.get("sp"))), pc.lib_pt(name, "G1", P2))
            lhs = pc.pm(name).pairing(pc.lib_pt(name, "G2", Qm, scale=pc.unscale(case.get("sq"))), S)
        else:
            lhs = _pair(name, Qm, C.add("G1", P1, P2), case.get("sq"), case.get("sp"))
        rhs = _pair(name, Qm, P1) * _pair(name, Qm, P2)
    if lib_sum:
        ctx.label("additive:library_sum")
        if a % C.r == b % C.r:
            ctx.label("additive:library_sum_of_equal_points")
    ctx.check(pc.coeffs(lhs) == pc.coeffs(rhs), "additive", f"slot_{slot}", case,
              f"{name}: pairing of a sum in the {slot} argument != product of pairings (a={a}, b={b}, c={c})")
    ctx.label(f"additive:{name}")
    if a % C.r and b % C.r and c % C.r and a != b:
        ctx.nontrivial(("a", name, a, b, c, slot))
    ctx.sample(case, f"additive:{name}:{slot}")


def o_negation(ctx, case):
    name, a, b = case["module"], case["a"], case["b"]
    curve = pc.CURVE_OF[name]
    C = mc.CURVES[curve]
    ctx.begin("negation", case)
    Qm, Pm = pc.kG(curve, "G2", b), pc.kG(curve, "G1", a)
    e = _pair(name, Qm, Pm)
    e1 = _pair(name, C.neg("G2", Qm), Pm, case.get("sq"), case.get("sp"))
    e2 = _pair(name, Qm, C.neg("G1", Pm), case.get("sq"), case.get("sp"))
    one = pc.one12(name)
    ctx.check(pc.coeffs(e1) == pc.coeffs(e2), "negation", "sides_differ", case,
              f"{name}: pairing(-Q, P) != pairing(Q, -P)")
    ctx.check(pc.coeffs(e1 * e) == pc.coeffs(one), "negation", "not_inverse", case,
              f"{name}: pairing(-Q, P) * pairing(Q, P) != 1")
    ctx.label(f"negation:{name}")
    if (a * b) % C.r:
        ctx.nontrivial(("n", name, a, b))
    ctx.sample(case, f"negation:{name}")


def o_order(ctx, case):
    name = case["module"]
    C = mc.CURVES[pc.CURVE_OF[name]]
    ctx.begin("order", case)
    e = pc.e0(name)
    one = pc.one12(name)
    ctx.check(pc.coeffs(e) != pc.coeffs(one), "order", "degenerate", case, f"{name}: pairing(G2, G1) == 1")
    ctx.check(pc.coeffs(e ** C.r) == pc.coeffs(one), "order", "not_order_r", case, f"{name}: pairing(G2, G1)^r != 1")
    ctx.label(f"order:{name}")
    ctx.nontrivial(("o", name))
    ctx.sample(case, f"order:{name}")


INF_G1 = [(1, 1, 0), (0, 1, 0), (5, 7, 0)]
INF_G2 = [((1, 0), (1, 0), (0, 0)), ((0, 0), (1, 0), (0, 0)), ((5, 3), (7, 11), (0, 0))]


def o_infinity(ctx, case):
    name, k, slot, rep = case["module"], case["k"], case["slot"], case.get("rep", 0)
    curve = pc.CURVE_OF[name]
    ctx.begin("infinity", case)
    opt = name.startswith("optimized")
    M = pc.pm(name)
    if slot in ("Q", "both"):
        Q = pc.lib_pt(name, "G2", None, inf_rep=INF_G2[rep % 3] if opt else None)
    else:
        Q = pc.lib_pt(name, "G2", pc.kG(curve, "G2", k))
    if slot in ("P", "both"):
        Pt = pc.lib_pt(name, "G1", None, inf_rep=INF_G1[rep % 3] if opt else None)
    else:
        Pt = pc.lib_pt(name, "G1", pc.kG(curve, "G1", k))
    got = M.pairing(Q, Pt)
    ctx.check(type(got) is mod(name).FQ12 and pc.coeffs(got) == pc.coeffs(pc.one12(name)), "infinity", "not_one", case,
              f"{name}: pairing with infinity in slot {slot} is not FQ12.one()")
    if opt:
        raw = M.pairing(Q, Pt, final_exponentiate=False)
        ctx.check(pc.coeffs(raw) == pc.coeffs(pc.one12(name)), "infinity", "raw_not_one", case,
                  f"{name}: pairing(..., final_exponentiate=False) with infinity is not one")
        if rep % 3:
            ctx.label("infinity:rep")
    ctx.label(f"infinity:{name}")
    ctx.nontrivial(("i", name, k, slot, rep))
    ctx.sample(case, f"infinity:{name}:{slot}")


def o_offcurve(ctx, case):
    name, k, slot, how = case["module"], case["k"], case["slot"], case["how"]
    curve = pc.CURVE_OF[name]
    C = mc.CURVES[curve]
    ctx.begin("offcurve", case)
    g = "G2" if slot == "Q" else "G1"
    F, bcoef = C.group(g)
    good = pc.kG(curve, g, k)
    one = F.one
    if how == "origin":
        bad = (F.zero, F.zero)                       # (0, 0): on no curve y^2 = x^3 + b with b != 0
    elif how == "x=0":
        bad = (F.zero, good[1])
    elif how == "y=0":
        bad = (good[0], F.zero)
    elif how == "y+1":
        bad = (good[0], F.add(good[1], one))
    elif how == "x+1":
        bad = (F.add(good[0], one), good[1])
    elif how == "z_only":
        bad = None                                   # built below, once the scaling value is known
    else:
        v = case["v"]
        bad = (F.el(v[0]) if g == "G2" else v[0] % C.p, F.el(v[1]) if g == "G2" else v[1] % C.p)
    scale = pc.unscale(case.get("s"))
    opt = name.startswith("optimized")
    z_only = how == "z_only"
    if z_only:
        # projective modules only: the triple (X, Y, z) where (X, Y) satisfies the AFFINE equation and z is
        # neither 0 nor 1 - it denotes (X/z, Y/z), which is off the curve
        if not opt:
            return
        zv = scale if scale is not None else (2 if g == "G1" else (2, 0))
        if zv == one or F.is_zero(zv):
            zv = 3 if g == "G1" else (3, 0)
        bad = (F.div(good[0], zv), F.div(good[1], zv))
    if C.on_curve(g, bad):
        return      # the perturbation landed on the curve (x+1 with the same y never does; random: 1/p)
    other = case.get("other", "finite")       # the OTHER argument: a subgroup point or infinity
    rep = case.get("rep", 0)
    if other == "inf":
        oQ = pc.lib_pt(name, "G2", None, inf_rep=INF_G2[rep % 3] if opt else None)
        oP = pc.lib_pt(name, "G1", None, inf_rep=INF_G1[rep % 3] if opt else None)
    else:
        oQ, oP = pc.lib_pt(name, "G2", pc.kG(curve, "G2", 3)), pc.lib_pt(name, "G1", pc.kG(curve, "G1", 3))
    if z_only:
        # exactly the coordinates of the valid point, with another z
        b_ = pc.lib_pt(name, g, bad, scale=zv)
        v_ = pc.lib_pt(name, g, good)
        if not (b_[0] == v_[0] and b_[1] == v_[1] and b_[2] != v_[2]):
            raise HarnessError("z_only construction did not keep (X, Y)")
        Q, Pt = (b_, oP) if slot == "Q" else (oQ, b_)
        ctx.label("offcurve:valid_xy_other_z")
    else:
        Q = pc.lib_pt(name, "G2", bad, scale=scale) if slot == "Q" else oQ
        Pt = pc.lib_pt(name, "G1", bad, scale=scale) if slot == "P" else oP
    try:
        out = pc.pm(name).pairing(Q, Pt)
    except ValueError:
        out = ValueError
    ctx.check(out is ValueError, "offcurve", "paired", case,
              f"{name}: pairing accepted an off-curve {g} argument ({how}) and returned a value")
    ctx.label(f"offcurve:{name}")
    if how == "origin":
        ctx.label("offcurve:origin")
    if other == "inf":
        ctx.label("offcurve:other_argument_infinity")
    ctx.nontrivial(("x", name, k, slot, how, case.get("v"), case.get("s"), other, rep))
    ctx.sample(case, f"offcurve:{name}:{slot}")


ORACLES = {"bilinear": o_bilinear, "additive": o_additive, "negation": o_negation, "order": o_order,
           "infinity": o_infinity, "offcurve": o_offcurve}


def _scales(name):
    curve = pc.CURVE_OF[name]
    opt = name.startswith("optimized")
    return pc.s_scale(curve, "G2", opt), pc.s_scale(curve, "G1", opt)


def t_laws(ctx, module, shard, nb, na, nn):
    name = module
    curve = pc.CURVE_OF[name]
    r = mc.CURVES[curve].r
    p = mc.CURVES[curve].p
    sq, sp = _scales(name)
    sc = pc.s_scalar(r)
    if shard == 0:
        o_order(ctx, {"module": name})
    ex = []
    if shard == 0:
        ex = [{"module": name, "a": 0, "b": 5, "sq": None, "sp": None}, {"module": name, "a": r, "b": 1, "sq": None, "sp": None},
              {"module": name, "a": 3, "b": 0, "sq": None, "sp": None, "lib_mul": True},
              {"module": name, "a": r - 1, "b": r - 1, "sq": None, "sp": None}]
    drive(ctx, f"bil{name}{shard}", st.fixed_dictionaries({"module": st.just(name), "a": sc, "b": sc, "sq": sq, "sp": sp,
                                                           "raw_first": st.booleans(),
                                                           "lib_mul": st.sampled_from([False, False, False, True])}),
          lambda c: o_bilinear(ctx, c), nb, ex, shrink=False)
    small = st.one_of(st.integers(1, 40), uniform_int(1, r - 1), st.sampled_from([0, r]))

    def same_sometimes(d):
        d = dict(d)
        if d.pop("same"):
            d["b"] = d["a"]            # P + P reached through add() with two representatives
        return d
    ex_add = []
    # a summand that is the module's own 0*G or r*G, added to a finite point by the module's own add()
    nsh = 2 if name.startswith("optimized") else 5
    ex_add = [{"module": name, "a": a_, "b": b_, "c": 3, "slot": sl, "sq": None, "sp": None, "lib_sum": True, "lib_mul": True}
              for sl in ("Q", "P") for a_, b_ in ((0, 5), (5, 0), (r, 2))][shard::nsh]
    if name.startswith("optimized"):
        ex_add += [{"module": name, "a": 5, "b": 5, "c": 3, "slot": sl, "sq": [1, 1], "sp": 2, "lib_sum": True}
                   for sl in ("Q", "P")][shard:shard + 1]
    drive(ctx, f"add{name}{shard}", st.fixed_dictionaries({"module": st.just(name), "a": small, "b": small, "c": small,
                                                           "slot": st.sampled_from(["Q", "P"]), "sq": sq, "sp": sp,
                                                           "lib_sum": st.booleans(), "lib_mul": st.sampled_from([False, False, True]),
                                                           "same": st.sampled_from([False, False, True])}
                                                          ).map(same_sometimes),
          lambda c: o_additive(ctx, c), na, ex_add, shrink=False)
    drive(ctx, f"neg{name}{shard}", st.fixed_dictionaries({"module": st.just(name), "a": small, "b": small, "sq": sq, "sp": sp}),
          lambda c: o_negation(ctx, c), nn, shrink=False)


def t_cheap(ctx, module, n):
    name = module
    curve = pc.CURVE_OF[name]
    C = mc.CURVES[curve]
    for slot in ("Q", "P", "both"):
        for rep in range(3):
            o_infinity(ctx, {"module": name, "k": 1 + rep, "slot": slot, "rep": rep})
    drive(ctx, f"inf{name}", st.fixed_dictionaries({"module": st.just(name), "k": st.integers(1, 60),
                                                    "slot": st.sampled_from(["Q", "P", "both"]), "rep": st.integers(0, 2)}),
          lambda c: o_infinity(ctx, c), n)
    opt = name.startswith("optimized")
    coord = uniform_int(0, C.p - 1)
    v = st.one_of(st.tuples(coord, coord).map(list),
                  st.tuples(st.tuples(coord, coord).map(list), st.tuples(coord, coord).map(list)).map(list))

    def fix(d):
        d = dict(d)
        if d["how"] == "random":
            g2 = d["slot"] == "Q"
            is_pair = isinstance(d["v"][0], list)
            if g2 != is_pair:
                d["v"] = [[d["v"][0], 1], [d["v"][1], 2]] if g2 else [d["v"][0][0], d["v"][1][0]]
        return d
    strat = st.fixed_dictionaries({"module": st.just(name), "k": st.integers(1, 60), "slot": st.sampled_from(["Q", "P"]),
                                   "how": st.sampled_from(["y+1", "x+1", "random", "origin", "x=0", "y=0"] + (["z_only", "z_only"] if opt else [])), "v": v,
                                   "other": st.sampled_from(["finite", "inf"]), "rep": st.integers(0, 2),
                                   "s": st.one_of(st.none(), st.none()) if not opt else st.none()}).map(fix)
    if opt:
        # scaled off-curve representatives: scaling value of the right field is attached per slot
        sq, sp = _scales(name)
        strat = st.tuples(strat, sq, sp).map(lambda t: dict(t[0], s=t[1] if t[0]["slot"] == "Q" else t[2]))
    ex = [{"module": name, "k": 2, "slot": s, "how": h, "v": None, "s": None, "other": o, "rep": 1}
          for s in ("Q", "P") for h in ("y+1", "x+1", "origin", "y=0") for o in ("finite", "inf")]
    if opt:
        ex += [{"module": name, "k": 5, "slot": s, "how": "z_only", "v": None, "s": None, "other": o, "rep": 0}
               for s in ("Q", "P") for o in ("finite", "inf")]
    drive(ctx, f"off{name}", strat, lambda c: o_offcurve(ctx, c), n, ex)


def tasks(tier):
    q = tier == "quick"
    out = []
    for name in pc.MODULES:
        opt = name.startswith("optimized")
        if opt:
            for s in range(2):
                out.append(Task(f"laws-{name}-{s}", "t_laws", module=name, shard=s, nb=12 if q else 500,
                                na=4 if q else 150, nn=4 if q else 150))
        else:
            for s in range(5):
                out.append(Task(f"laws-{name}-{s}", "t_laws", module=name, shard=s, nb=2 if q else 40,
                                na=1 if q else 10, nn=1 if q else 10))
        out.append(Task(f"cheap-{name}", "t_cheap", module=name, n=(150 if opt else 40) if q else (4000 if opt else 600)))
    return out
