"""C06 - ECDSA: sign-then-recover returns the signer's key; signatures valid, low-s, RFC 6979."""
import hashlib

from hypothesis import strategies as st

from vf.harness import HarnessError, Task, drive, hx, same_by_name, unhx
from vf.model import kdf, params, vectors
from vf.model.secp import SECP
from vf.props._secp_common import to_lib
from vf.strategies import scalar_in

RULE = ("Hypothesis-generated (d, hash) with d over both ends / every bit length / uniform of "
        "[1,N-1] and hashes 0x00*32, 0xff*32, N-1, N, N+1, P, 2^256-1, random 32-byte and 0..64-byte "
        "strings; each signature checked against a textbook ECDSA model, the RFC 6979 HMAC-DRBG "
        "model and both recoveries; non-trivial = the low-s flip was taken (recomputed in the "
        "model), or hash >= N, or len(hash) != 32; distinct by (d, hash)")
ASSUMPTIONS = ["the nonce is the RFC 6979 sec. 3.2 HMAC-DRBG over the key and hash octets as given "
               "(= strict RFC 6979 for 32-byte hashes below N, which is asserted separately)",
               "x(kG) >= N and k outside [1,N-1] have probability ~2^-128 and are not generated"]
ENGINE = "hypothesis"
TECHNIQUE = ("property-based testing (Hypothesis) against an independent ECDSA / RFC 6979 model (and OpenSSL where importable)")
REQUIRED_LABELS = {t: ["flip:taken", "flip:not_taken", "hash:>=N", "hash:len!=32", "v=27", "v=28",
                       "strict_rfc6979_agrees"] for t in ("quick", "thorough")}
N, P = params.SECP_N, params.SECP_P
try:
    from cryptography.hazmat.primitives import hashes as _ch
    from cryptography.hazmat.primitives.asymmetric import ec as _cec
    from cryptography.hazmat.primitives.asymmetric.utils import (
        Prehashed, decode_dss_signature, encode_dss_signature)
    HAVE_OPENSSL = True
except Exception:  # pragma: no cover
    HAVE_OPENSSL = False


def selfcheck():
    s = vectors.SECP_SATOSHI
    h = hashlib.sha256(s["msg"]).digest()
    priv = s["d"].to_bytes(32, "big")
    if kdf.rfc6979_first_candidate_raw(priv, h) != s["k"] or kdf.rfc6979_strict(s["d"], h) != s["k"]:
        raise HarnessError("RFC 6979 model fails the published vector")
    R, r, sm = SECP.sign_with_k(s["d"], int.from_bytes(h, "big"), s["k"])
    if r != s["r"] or min(sm, N - sm) != s["s"]:
        raise HarnessError("ECDSA model fails the published vector")


def o_sign(ctx, case):
    from py_ecc.secp256k1 import secp256k1 as m
    d, h = case["d"], unhx(case["h"])
    priv = d.to_bytes(32, "big")
    z = int.from_bytes(h, "big")
    ctx.begin("sign", case)
    sig = m.ecdsa_raw_sign(h, priv)
    same_by_name(ctx, "sign", case, m.ecdsa_raw_sign, (h, priv), sig, "ecdsa_raw_sign")
    ctx.check(isinstance(sig, tuple) and len(sig) == 3 and all(type(x) is int for x in sig),
              "sign", "shape", case, f"ecdsa_raw_sign returned {sig!r}")
    v, r, s = sig
    ctx.check(v in (27, 28), "sign", "v_range", case, f"v={v}")
    ctx.check(1 <= r < N, "sign", "r_range", case, f"r={r} outside [1,N-1]")
    ctx.check(1 <= s <= N // 2, "sign", "high_s", case, f"s={s} is not in [1, N/2]")
    # nonce
    k_model = kdf.rfc6979_first_candidate_raw(priv, h)
    k_lib = m.deterministic_generate_k(h, priv)
    ctx.check(k_lib == k_model, "sign", "nonce", case,
              f"deterministic_generate_k={k_lib:#x}, RFC 6979 HMAC-DRBG gives {k_model:#x}")
    if len(h) == 32 and z < N:
        ks = kdf.rfc6979_strict(d, h)
        if ks != k_model:
            raise HarnessError("strict and raw RFC 6979 differ for a 32-byte hash below N")
        ctx.label("strict_rfc6979_agrees")
    # signature value from the model
    Q = SECP.mul(SECP.g, d)
    R, r_m, s_m = SECP.sign_with_k(d, z, k_model % N)
    flip = s_m * 2 > N
    want = (27 + ((R[1] % 2) ^ (1 if flip else 0)), r_m, N - s_m if flip else s_m)
    ctx.check((v, r, s) == want, "sign", "value", case, f"signature {(v, r, s)} != model {want}")
    ctx.check(SECP.verify(Q, z % N, r, s), "sign", "verify", case,
              "signature does not satisfy the ECDSA verification equation under d*G")
    # the same call with MUTABLE byte arguments (the functions accept them): same signature, arguments
    # untouched, and the result is repeatable with the very same objects
    kb, hb = bytearray(priv), bytearray(h)
    try:
        sig_b = m.ecdsa_raw_sign(hb, kb)
    except TypeError:
        ctx.label("bytearray_refused")             # a stricter type gate would be legitimate
    else:
        ctx.check(tuple(sig_b) == (v, r, s), "sign", "bytearray_key", case,
                  f"ecdsa_raw_sign with bytearray arguments gives {tuple(sig_b)}, with bytes {(v, r, s)}")
        ctx.check(bytes(kb) == priv and bytes(hb) == h, "sign", "argument_mutated", case,
                  "ecdsa_raw_sign changed the bytearray it was given")
        ctx.check(tuple(m.ecdsa_raw_sign(hb, kb)) == (v, r, s), "sign", "not_repeatable", case,
                  "second call with the same bytearray objects differs")
        ctx.label("bytearray_arguments")
    # recovery
    pub = tuple(m.privtopub(priv))
    ctx.check(pub == to_lib(Q), "sign", "privtopub", case, f"privtopub={pub}, model d*G={to_lib(Q)}")
    rec = tuple(m.ecdsa_raw_recover(h, (v, r, s)))
    ctx.check(rec == pub, "sign", "recover", case, f"recover={rec} != privtopub={pub}")
    other = 55 - v
    try:
        rec2 = tuple(m.ecdsa_raw_recover(h, (other, r, s)))
    except ValueError:
        rec2 = None
    ctx.check(rec2 != pub, "sign", "other_v_recovers", case,
              f"the other v ({other}) also recovers the signer's key")
    again = m.ecdsa_raw_sign(h, priv)
    ctx.check(again == sig, "sign", "nondeterministic", case, "two calls differ")
    if HAVE_OPENSSL and len(h) == 32:
        key = _cec.derive_private_key(d, _cec.SECP256K1())
        try:
            key.public_key().verify(encode_dss_signature(r, s), h, _cec.ECDSA(Prehashed(_ch.SHA256())))
        except Exception as e:  # noqa
            ctx.violation("sign", "openssl_rejects", case, f"OpenSSL rejects the signature: {e!r}")
        ctx.label("openssl_verifies")
        if z < N and case.get("openssl_det", True):
            try:
                der = key.sign(h, _cec.ECDSA(Prehashed(_ch.SHA256()), deterministic_signing=True))
                ro, so = decode_dss_signature(der)
                if ro != r or so not in (s, N - s):
                    raise HarnessError("OpenSSL deterministic ECDSA differs from the model")
                ctx.label("openssl_deterministic_agrees")
            except (TypeError, ValueError, NotImplementedError, AttributeError):
                pass
            except HarnessError:
                raise
            except Exception:  # UnsupportedAlgorithm etc.
                pass
    # labels
    nt_ = False
    ctx.label("flip:taken" if flip else "flip:not_taken")
    ctx.label(f"v={v}")
    if flip:
        nt_ = True
    if z >= N:
        ctx.label("hash:>=N"); nt_ = True
    if len(h) != 32:
        ctx.label("hash:len!=32"); nt_ = True
    ctx.label("key:boundary" if d < 4 or d > N - 4 else "key:>200bits" if d.bit_length() > 200 else "key:other")
    if nt_:
        ctx.nontrivial(("s", d, case["h"]))
    ctx.sample(case, f"sign:flip={flip}:len={len(h)}")


ORACLES = {"sign": o_sign}

HASHES = [b"\x00" * 32, b"\xff" * 32, (N - 1).to_bytes(32, "big"), N.to_bytes(32, "big"),
          (N + 1).to_bytes(32, "big"), P.to_bytes(32, "big"), (2 ** 256 - 1).to_bytes(32, "big"),
          b"", b"\x00", b"\x01" * 31, b"\x80" + b"\x00" * 32, b"\xff" * 64]


# byte strings that LOOK like text: hex digests given as ASCII (64, 40, 32 characters), digits, base64-ish - a
# function that guesses the encoding of its argument from its content goes wrong on exactly these
TEXTLIKE = [b"0" * 64, b"f" * 64, b"5" * 64, b"0123456789abcdef" * 4, b"A" * 64, b"deadbeef" * 4, b"ab" * 20, b"12" * 16,
            b"0x" + b"1f" * 31, b"1234567890" * 6]


def s_case():
    ascii_hex = st.tuples(st.sampled_from([64, 40, 32, 63, 62]), st.binary(min_size=32, max_size=32)).map(
        lambda t: t[1].hex().encode()[:t[0]])
    anylen = st.integers(0, 64).flatmap(lambda k: st.binary(min_size=k, max_size=k))
    return st.fixed_dictionaries({
        "d": scalar_in(1, N - 1, extra=(2, 3, N - 2)),
        "h": st.one_of(st.sampled_from(HASHES), st.sampled_from(TEXTLIKE), ascii_hex, st.binary(min_size=32, max_size=32),
                       st.binary(min_size=32, max_size=32), st.binary(max_size=64), anylen).map(hx),
    })


def t_sign(ctx, shard, n):
    ex = []
    if shard == 0:
        sat = hashlib.sha256(vectors.SECP_SATOSHI["msg"]).digest()
        ex = [{"d": d, "h": hx(h)} for d in (1, 2, N - 2, N - 1) for h in HASHES + [sat]]
        ex += [{"d": 0xC0FFEE + i, "h": hx(h)} for i, h in enumerate(TEXTLIKE)]
    drive(ctx, f"sign{shard}", s_case(), lambda c: o_sign(ctx, c), n, ex)


def tasks(tier):
    selfcheck()
    n = 150 if tier == "quick" else 6000
    return [Task(f"sign-{s}", "t_sign", shard=s, n=n) for s in range(16)]
