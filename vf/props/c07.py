"""C07 - curve operations form the standard abelian group in all four curve modules."""
import importlib
import itertools

from hypothesis import strategies as st

from vf.harness import HarnessError, Task, drive
from vf.model import curves as mcurves
from vf.model import ec, nt, params
from vf.model.fields import Ext, Fp
from vf.props import _fields_common as fc
from vf.props._curve_common import MODULES, jpt, mod, unjpt
from vf.strategies import scalar_in, uniform_int

RULE = ("(A) the four modules' add/double/neg/multiply/eq/is_on_curve run on ad-hoc small-field "
        "classes over every odd-order curve y^2=x^3+b over GF(7), GF(13), GF(19) (thorough: 31, 37, 43) "
        "and over GF(7^2) (thorough: GF(11^2)): all points, all pairs, all triples (groups <= 40 "
        "elements, generating-set + stride otherwise), all scalars 0..2*ord+2, optimized modules in "
        "every projective scaling and four infinity representatives, each compared with an affine "
        "model - distinct by construction, non-trivial unless an operand is infinity; (B) Hypothesis "
        "on the real curves (4 modules x G1/G2/G12): kG, kG+T (cofactor torsion), twists, casts and "
        "their sums, laws + differential against the model, scalars {0,1,2,3,r-1,r,r+1,2p-r} and random "
        "up to 640 bits: non-trivial = a non-subgroup point, a scaled representative, a P=+-Q "
        "collision or a scalar >= 2^200; (C) constants and twist compared with values derived from "
        "the curve family parameters")
ASSUMPTIONS = ["affine model vf/model/ec.py over model fields; curve constants derived from the BLS/BN "
               "family parameters in vf/model/params.py (generators are the published literals)",
               "points of E(Fp12) are those reachable from the API (twists, casts, sums, multiples)",
               "multiply is exercised for n >= 0 only (the property's domain)"]
ENGINE = "exhaustive enumeration on small curves + hypothesis on the real curves"
TECHNIQUE = ("exhaustive enumeration over small curves on ad-hoc field classes + property-based testing (Hypothesis) on the real curves, differential against an independent affine model")
REQUIRED_LABELS = {t: ["A:pairs", "A:triples", "A:scalars", "A:long_scalars", "A:opt:scaled", "B:collision:same",
                       "B:collision:inverse", "B:same_y_other_x", "B:opposite_y_other_x", "B:non_subgroup", "B:small_order_point", "B:small_order_component", "B:scalar>=2^200", "B:G12:sum", "C:consts",
                       "C:twist"] for t in ("quick", "thorough")}
CURVE_FILE = {"bn128": "py_ecc.bn128.bn128_curve", "bls12_381": "py_ecc.bls12_381.bls12_381_curve",
              "optimized_bn128": "py_ecc.optimized_bn128.optimized_curve",
              "optimized_bls12_381": "py_ecc.optimized_bls12_381.optimized_curve"}


# ---- (A) small curves -------------------------------------------------------------------------------
class SmallCurve:
    def __init__(self, module, p, ext, b):
        self.module, self.p, self.ext = module, p, ext
        self.opt = module.startswith("optimized")
        self.cm = importlib.import_module(CURVE_FILE[module])
        impl = "opt" if self.opt else "ref"
        FQ, FQ2, _ = fc.make(impl, p, mc2=(1, 0) if ext else None)
        self.cls = FQ2 if ext else FQ
        self.F = Ext(p, (1, 0)) if ext else Fp(p)
        self.b = tuple(b) if ext else b
        self.lb = self.el(self.b)
        self.pts = [None] + ec.points(self.F, self.b)
        self.order = len(self.pts)
        self.scalars = [s for s in self.F.elements() if not self.F.is_zero(s)]

    def el(self, v):
        return self.cls(list(v)) if self.ext else self.cls(v)

    def lib(self, P, s=None, inf=0):
        if not self.opt:
            return None if P is None else (self.el(P[0]), self.el(P[1]))
        F = self.F
        if P is None:
            reps = [(F.one, F.one, F.zero), (F.zero, F.one, F.zero),
                    (self.scalars[-1], self.scalars[len(self.scalars) // 2], F.zero), (F.zero, F.zero, F.zero)]
            return tuple(self.el(v) for v in reps[inf % 4])
        s = F.one if s is None else s
        return (self.el(F.mul(P[0], s)), self.el(F.mul(P[1], s)), self.el(s))

    def back(self, pt):
        if not self.opt:
            return None if pt is None else (fc.val(pt[0]), fc.val(pt[1]))
        x, y, z = (fc.val(c) for c in pt)
        if self.F.is_zero(z):
            return None
        zi = self.F.inv(z)
        return (self.F.mul(x, zi), self.F.mul(y, zi))

    def desc(self):
        return {"module": self.module, "p": self.p, "ext": self.ext, "b": list(self.b) if self.ext else self.b}


def _sc_case(S, fn, **kw):
    d = S.desc()
    d["fn"] = fn
    for k, v in kw.items():
        d[k] = jpt(v) if isinstance(v, tuple) and k in ("P", "Q", "R") else \
            (list(v) if isinstance(v, tuple) else v)
    return d


def o_small(ctx, case):
    """Replay of a single small-curve case."""
    S = SmallCurve(case["module"], case["p"], case["ext"], case["b"])
    ctx.begin("small", case)
    P, Q, R = (unjpt(case.get(k)) for k in ("P", "Q", "R"))
    s1 = tuple(case["s1"]) if isinstance(case.get("s1"), list) else case.get("s1")
    s2 = tuple(case["s2"]) if isinstance(case.get("s2"), list) else case.get("s2")
    fn = case["fn"]
    if fn == "pair":
        _pair(ctx, S, P, Q, s1, s2, case.get("i1", 0), case.get("i2", 0))
    elif fn == "triple":
        _triple(ctx, S, P, Q, R)
    elif fn == "scalar":
        _scalar(ctx, S, P, case["n"], s1, case.get("i1", 0), case.get("ordP"))
    else:
        raise HarnessError("bad fn")


def _pair(ctx, S, P, Q, s1, s2, i1, i2):
    ctx.ev()
    F, cm = S.F, S.cm
    lp, lq = S.lib(P, s1, i1), S.lib(Q, s2, i2)
    want = ec.add(F, P, Q)
    case = None

    def bad(kind, msg):
        ctx.violation("small", kind, _sc_case(S, "pair", P=P, Q=Q, s1=s1, s2=s2, i1=i1, i2=i2), msg,
                      {"fn": kind, "module": S.module})

    r = cm.add(lp, lq)
    if S.back(r) != want:
        bad("add", f"{S.module}.add({P},{Q}) on y^2=x^3+{S.b} over GF({S.p}{'^2' if S.ext else ''}) "
                   f"~ {S.back(r)}; group law: {want}")
    if not cm.is_on_curve(r, S.lb):
        bad("closure", f"add({P},{Q}) is not on the curve")
    r2 = cm.add(lq, lp)
    if S.back(r2) != want:
        bad("commutativity", f"add({Q},{P}) ~ {S.back(r2)} != {want}")
    if bool(cm.eq(lp, lq)) != (P == Q):
        bad("eq", f"eq({P},{Q}) = {cm.eq(lp, lq)}")
    if P is not None and Q is not None:
        ctx.nontrivial_bulk(1)


def _unary(ctx, S, P, s, i):
    ctx.ev()
    F, cm = S.F, S.cm
    lp = S.lib(P, s, i)

    def bad(kind, msg):
        ctx.violation("small", kind, _sc_case(S, "pair", P=P, Q=P, s1=s, s2=s, i1=i, i2=i), msg,
                      {"fn": kind, "module": S.module})

    d = cm.double(lp)
    if S.back(d) != ec.add(F, P, P):
        bad("double", f"{S.module}.double({P}) ~ {S.back(d)} != P+P = {ec.add(F, P, P)}")
    n = cm.neg(lp)
    if S.back(n) != ec.neg(F, P):
        bad("neg", f"neg({P}) ~ {S.back(n)}")
    if S.back(cm.add(lp, n)) is not None:
        bad("inverse", f"P + neg(P) is not infinity for P={P}")
    if not cm.is_on_curve(lp, S.lb):
        bad("is_on_curve", f"curve point {P} reported off-curve")
    if P is not None:
        off = (P[0], F.add(P[1], F.one))
        if not ec.on_curve(F, off, S.b) and cm.is_on_curve(S.lib(off, s), S.lb):
            bad("is_on_curve", f"off-curve point {off} reported on-curve")
    if S.opt and bool(cm.is_inf(lp)) != (P is None):
        bad("is_inf", f"is_inf wrong for {P}")


def _triple(ctx, S, P, Q, R):
    ctx.ev()
    cm = S.cm
    lp, lq, lr = S.lib(P), S.lib(Q), S.lib(R)
    l = S.back(cm.add(cm.add(lp, lq), lr))
    r = S.back(cm.add(lp, cm.add(lq, lr)))
    want = ec.add(S.F, ec.add(S.F, P, Q), R)
    if not (l == r == want):
        ctx.violation("small", "associativity", _sc_case(S, "triple", P=P, Q=Q, R=R),
                      f"{S.module}: (P+Q)+R ~ {l}, P+(Q+R) ~ {r}, group law {want} for {P},{Q},{R}",
                      {"fn": "associativity", "module": S.module})
    ctx.nontrivial_bulk(1)


def _scalar(ctx, S, P, n, s, i, ordP):
    ctx.ev()
    cm = S.cm
    lp = S.lib(P, s, i)
    r = cm.multiply(lp, n)
    want = ec.mul(S.F, P, n)
    if S.back(r) != want:
        ctx.violation("small", "multiply", _sc_case(S, "scalar", P=P, n=n, s1=s, i1=i, ordP=ordP),
                      f"{S.module}.multiply({P}, {n}) ~ {S.back(r)}; n-fold sum = {want}",
                      {"fn": "multiply", "module": S.module})
    if ordP:
        r2 = cm.multiply(lp, n % ordP)
        if S.back(r2) != want:
            ctx.violation("small", "multiply_mod_order", _sc_case(S, "scalar", P=P, n=n, s1=s, i1=i, ordP=ordP),
                          f"multiply(P,{n}) != multiply(P,{n} mod {ordP})", {"fn": "multiply", "module": S.module})
    if P is not None and n > 1:
        ctx.nontrivial_bulk(1)


LONG_SCALARS = ((1 << 64) + 4, 0xFEDCBA9876543210F, (1 << 130) - 1, 0x123456789ABCDEF0123456789ABCDEF01, 1 << 255,
                0x73EDA753299D7D483339D80809A1D80553BDA402FFFE5BFEFFFFFFFF00000000)


def t_small(ctx, module, p, ext, bs, max_assoc, stride_seed):
    for b in bs:
        S = SmallCurve(module, p, ext, b)
        F = S.F
        pts = S.pts
        n = S.order
        assert n % 2 == 1
        nsc = len(S.scalars)
        all_scalings = S.opt and (F.order <= 49)
        # unary + pairs
        k = 0
        for a, P in enumerate(pts):
            if S.opt:
                scal = S.scalars if all_scalings else [S.scalars[(a * 5 + j * 7) % nsc] for j in range(3)]
                for j, s in enumerate(scal):
                    _unary(ctx, S, P, s, j)
                    ctx.label("A:opt:scaled")
            else:
                _unary(ctx, S, P, None, 0)
            for c, Q in enumerate(pts):
                k += 1
                if S.opt:
                    combos = [(S.scalars[(k * 3) % nsc], S.scalars[(k * 7 + 1) % nsc], k % 4, (k // 4) % 4),
                              (F.one, S.scalars[(k * 11 + 2) % nsc], (k + 1) % 4, (k + 2) % 4)]
                    if all_scalings and F.order <= 13 and (P is not None and Q is not None):
                        combos = [(s1, s2, 0, 0) for s1 in S.scalars for s2 in S.scalars]
                    for s1, s2, i1, i2 in combos:
                        _pair(ctx, S, P, Q, s1, s2, i1, i2)
                else:
                    _pair(ctx, S, P, Q, None, None, 0, 0)
                ctx.label("A:pairs")
        # triples
        if n <= max_assoc:
            trip = itertools.product(pts, repeat=3)
            how = "all triples"
        else:
            gens = pts[1:4] + pts[n // 2: n // 2 + 3]
            st_ = (stride_seed * 2 + 101) | 1
            samp = [(pts[(i * st_) % n], pts[(i * st_ * 7 + 3) % n], pts[(i * 13 + 5) % n])
                    for i in range(max_assoc ** 3 // 8)]
            trip = itertools.chain(itertools.product(gens, repeat=3), samp)
            how = "generating-set triples + stride sample"
        for P, Q, R in trip:
            _triple(ctx, S, P, Q, R)
            ctx.label("A:triples")
        # scalars
        for a, P in enumerate(pts):
            ordP = ec.point_order(F, P) if P is not None else 1
            for m_ in range(0, 2 * n + 3):
                s = S.scalars[(a + m_) % nsc] if S.opt else None
                _scalar(ctx, S, P, m_, s, m_ % 4, ordP)
                ctx.label("A:scalars")
            # scalars far longer than the group order (windowed / chunked ladders switch strategy on the bit length):
            # every hex digit occurs, applied to points of every small order
            for m_ in LONG_SCALARS:
                _scalar(ctx, S, P, m_, S.scalars[(a + m_) % nsc] if S.opt else None, m_ % 4, ordP)
                ctx.label("A:long_scalars")
        ctx.subspace(f"{module} on y^2=x^3+{b} over GF({p}{'^2' if ext else ''}), order {n}: all points/pairs, "
                     f"{how}, all scalars 0..{2 * n + 2}", n * n + n * (2 * n + 3))
        ctx.sample({"module": module, "p": p, "ext": ext, "b": list(b) if ext else b, "order": n},
                   f"small:{module}:{p}:{ext}")


# ---- (B) real curves -------------------------------------------------------------------------------
def model_point(C, g, spec):
    """spec: {k, tors, kind}  kind for G12: 'twist' | 'cast' | 'sum'."""
    k, tors = spec["k"], spec.get("tors", 0)
    if spec.get("inf"):
        return None
    if g == "G12":
        kind = spec.get("kind", "twist")
        T = C.twist(C.mul("G2", C.G2, k % C.r))
        if kind == "twist":
            return T
        K = C.cast1(C.mul("G1", C.G1, (k * 3 + 1) % C.r))
        if kind == "cast":
            return K
        return C.add("G12", T, K)
    base = C.G1 if g == "G1" else C.G2
    P = C.mul(g, base, k % C.r)
    if tors and (g == "G2" or C.h1 > 1):
        if tors >= 10 and C.name == "bls12_381":
            # a component of SMALL order (3, 11 on E(Fp); 13, 23 on the twist), alone or on top of k*G
            from vf.props import _bls_common as bc
            ell = bc.SMALL_ORDERS[g][tors % 2]
            T = C.mul(g, bc.small_point(g, ell, 1 + (tors // 2) % 3), 1 + (tors // 6) % (ell - 1))
            return T if tors >= 40 else C.add(g, P, T)
        P = C.add(g, P, C.torsion(g, tors))
    return P


def o_real(ctx, case):
    """case: {module, g, P:{k,tors,kind,inf}, Q:{...}, R:{...}, rel, n, s1, s2}"""
    M = mod(case["module"])
    C, g, m = M.C, case["g"], M.m
    F, b = C.group(g)
    ctx.begin("real", case)
    P = model_point(C, g, case["P"])
    rel = case["rel"]
    if rel.startswith("endo") and P is not None:
        # the image of P under the order-3 automorphism (x, y) -> (beta x, y) of a j = 0 curve, or its negative:
        # a different point with the same (opposite) y coordinate
        beta = nt.cube_roots_of_unity(C.p)[int(rel[5])]
        Q = (F.smul(P[0], beta), P[1] if rel[4] == "+" else F.neg(P[1]))
    else:
        Q = P if rel == "same" else C.neg(g, P) if rel == "inverse" else model_point(C, g, case["Q"])
    R = model_point(C, g, case["R"])

    def sc(s):
        if not M.opt or s == 1:
            return None
        if F.degree == 1:
            return s % C.p or 1
        v = tuple((s * (i + 2) + i) % C.p for i in range(F.degree))
        return v if not F.is_zero(v) else None

    lp, lq, lr = M.pt(g, P, sc(case["s1"])), M.pt(g, Q, sc(case["s2"])), M.pt(g, R)
    bc = M.bcoef[g]

    def chk(cond, kind, msg):
        ctx.check(cond, "real", kind, case, f"{M.name} {g}: {msg}", {"fn": kind, "module": M.name, "g": g})

    pq = m.add(lp, lq)
    want = C.add(g, P, Q)
    chk(M.well_formed(g, pq) and M.back(g, pq) == want, "add", f"add ({rel}) != group law")
    chk(bool(m.is_on_curve(pq, bc)), "closure", "P+Q not on curve")
    chk(M.back(g, m.add(lq, lp)) == want, "commutativity", "Q+P != P+Q")
    chk(M.back(g, m.double(lp)) == C.add(g, P, P), "double", "double(P) != P+P")
    chk(M.back(g, m.neg(lp)) == C.neg(g, P), "neg", "neg wrong")
    chk(M.back(g, m.add(lp, m.neg(lp))) is None, "inverse", "P + (-P) != O")
    zero = M.pt(g, None)
    chk(M.back(g, m.add(lp, zero)) == P and M.back(g, m.add(zero, lp)) == P, "identity", "P + O != P")
    chk(bool(m.eq(lp, lq)) == ec.eq(F, P, Q), "eq", "eq wrong")
    chk(bool(m.is_on_curve(lp, bc)), "is_on_curve", "curve point reported off-curve")
    if case.get("assoc", True):
        l = M.back(g, m.add(pq, lr))
        r = M.back(g, m.add(lp, m.add(lq, lr)))
        chk(l == r == C.add(g, want, R), "associativity", "(P+Q)+R != P+(Q+R)")
    # multiply
    n = case["n"]
    if n is not None:
        mp = m.multiply(lp, n)
        if g == "G12" and case["P"].get("kind", "twist") != "sum" and P is not None:
            # homomorphic image: multiply in the cheap group and map
            if case["P"].get("kind", "twist") == "twist":
                wantm = C.twist(C.mul("G2", C.mul("G2", C.G2, case["P"]["k"] % C.r), n))
            else:
                wantm = C.cast1(C.mul("G1", C.mul("G1", C.G1, (case["P"]["k"] * 3 + 1) % C.r), n))
        else:
            wantm = C.mul(g, P, n)
        chk(M.well_formed(g, mp) and M.back(g, mp) == wantm, "multiply", f"multiply(P, {n}) != n-fold sum")
        chk(bool(m.is_on_curve(mp, bc)), "closure", "nP not on curve")
        in_sub = not case["P"].get("tors") or (g == "G1" and C.h1 == 1)
        if in_sub and (g != "G12" or case["P"].get("kind", "twist") != "sum" or True):
            mp2 = m.multiply(lp, n % C.r)
            chk(M.back(g, mp2) == wantm, "multiply_mod_r", "multiply(P,n) != multiply(P, n mod r)")
        a2 = case.get("n2")
        if a2 is not None:
            lhs = M.back(g, m.multiply(lp, n + a2))
            rhs = M.back(g, m.add(mp, m.multiply(lp, a2)))
            chk(lhs == rhs, "multiply_additive", "multiply(P,a+b) != multiply(P,a)+multiply(P,b)")
            if a2 < 2 ** 70 or n < 2 ** 70:
                chk(M.back(g, m.multiply(mp, a2)) == M.back(g, m.multiply(lp, n * a2)), "multiply_multiplicative",
                    "multiply(multiply(P,a),b) != multiply(P,ab)")
    # labels
    nt_ = False
    if rel == "same":
        ctx.label("B:collision:same"); nt_ = True
    elif rel == "inverse":
        ctx.label("B:collision:inverse"); nt_ = True
    elif rel.startswith("endo") and P is not None:
        ctx.label("B:same_y_other_x" if rel[4] == "+" else "B:opposite_y_other_x"); nt_ = True
    if case["P"].get("tors") and (g == "G2" or C.h1 > 1):
        ctx.label("B:non_subgroup"); nt_ = True
        if case["P"]["tors"] >= 10 and C.name == "bls12_381":
            ctx.label("B:small_order_component" if case["P"]["tors"] < 40 else "B:small_order_point")
    if M.opt and (case["s1"] != 1 or case["s2"] != 1):
        ctx.label("B:scaled"); nt_ = True
    if n is not None and n >= 2 ** 200:
        ctx.label("B:scalar>=2^200"); nt_ = True
    if g == "G12":
        ctx.label("B:G12:" + case["P"].get("kind", "twist"))
    if case["P"].get("inf") or (rel == "free" and case["Q"].get("inf")):
        ctx.label("B:inf_operand")
    ctx.label(f"B:{M.name}:{g}")
    if nt_:
        ctx.nontrivial(("r", str(sorted((k, str(v)) for k, v in case.items()))))
    ctx.sample(case, f"real:{M.name}:{g}")


# ---- (C) constants and twist ---------------------------------------------------------------------------
def o_consts(ctx, case):
    M = mod(case["module"])
    C, m = M.C, M.m
    ctx.begin("consts", case)
    cm = importlib.import_module(CURVE_FILE[M.name])

    def chk(cond, what):
        ctx.check(cond, "consts", what, case, f"{M.name}: constant {what} is not the standard one",
                  {"fn": what, "module": M.name})

    chk(m.field_modulus == C.p and cm.field_modulus == C.p, "field_modulus")
    chk(m.curve_order == C.r, "curve_order")
    chk(fc.val(m.b) == C.b and type(m.b) is M.FQ, "b")
    chk(fc.val(m.b2) == C.b2 and type(m.b2) is M.FQ2, "b2")
    chk(fc.val(m.b12) == C.b12 and type(m.b12) is M.FQ12, "b12")
    chk(M.back("G1", m.G1) == C.G1 and M.well_formed("G1", m.G1), "G1")
    chk(M.back("G2", m.G2) == C.G2 and M.well_formed("G2", m.G2), "G2")
    chk(M.back("G12", m.G12) == C.twist(C.G2), "G12")
    chk(fc.val(cm.w) == C.w, "w")
    chk(M.FQ.field_modulus == C.p and M.FQ2.field_modulus == C.p and M.FQ12.field_modulus == C.p, "class_moduli")
    chk(tuple(c % C.p for c in M.FQ2.FQ2_MODULUS_COEFFS) == (1, 0), "fq2_modulus")
    chk(tuple(c % C.p for c in M.FQ12.FQ12_MODULUS_COEFFS) == C.F12.mc, "fq12_modulus")
    if M.opt:
        chk(M.back("G1", m.Z1) is None and M.back("G2", m.Z2) is None, "Z")
        chk(type(m.Z1[0]) is M.FQ and type(m.Z2[0]) is M.FQ2, "Z_types")
    else:
        chk(m.Z1 is None and m.Z2 is None, "Z")
    chk(M.back("G1", m.multiply(m.G1, C.r)) is None, "r*G1")
    chk(M.back("G2", m.multiply(m.G2, C.r)) is None, "r*G2")
    ctx.label("C:consts")
    ctx.nontrivial(("consts", M.name))
    ctx.sample(case, f"consts:{M.name}")


def o_twist(ctx, case):
    """twist is the model embedding, lands on E12, is additive and injective."""
    M = mod(case["module"])
    C, m = M.C, M.m
    ctx.begin("twist", case)
    P = model_point(C, "G2", case["P"])
    Q = model_point(C, "G2", case["Q"])

    def sc(s):
        if not M.opt or s == 1:
            return None
        return ((s % C.p) or 1, (s * 5 + 1) % C.p)

    lp, lq = M.pt("G2", P, sc(case["s1"])), M.pt("G2", Q, sc(case["s2"]))

    def chk(cond, kind, msg):
        ctx.check(cond, "twist", kind, case, f"{M.name}: {msg}", {"fn": kind, "module": M.name})

    tp, tq = m.twist(lp), m.twist(lq)
    chk(M.back("G12", tp) == C.twist(P), "embedding", "twist(P) is not the standard embedding")
    chk(bool(m.is_on_curve(tp, m.b12)), "on_curve", "twist(P) not on E12")
    chk(M.well_formed("G12", tp), "shape", "twist(P) malformed")
    s = m.add(lp, lq)
    chk(M.back("G12", m.twist(s)) == M.back("G12", m.add(tp, tq)), "additive", "twist(P+Q) != twist(P)+twist(Q)")
    same = ec.eq(C.F2, P, Q)
    chk((M.back("G12", tp) == M.back("G12", tq)) == same, "injective", "twist is not injective")
    ctx.label("C:twist")
    if P is None or Q is None:
        ctx.label("C:twist:inf")
    ctx.nontrivial(("tw", str(case)))
    ctx.sample(case, f"twist:{M.name}")


ORACLES = {"small": o_small, "real": o_real, "consts": o_consts, "twist": o_twist}


def s_pspec(C, g):
    kinds = st.sampled_from(["twist", "twist", "cast", "sum"]) if g == "G12" else st.just("pt")
    tors = st.sampled_from([0, 0, 0, 0, 1, 2, 3, 10, 11, 17, 40, 41, 47, 52]) if g != "G12" else st.just(0)
    return st.fixed_dictionaries({"k": scalar_in(1, C.r - 1), "tors": tors, "kind": kinds,
                                  "inf": st.sampled_from([False] * 9 + [True])})


def family_scalars(C):
    """Scalars algebraically related to the curve family parameter (x for BLS12-381, t for BN254) and to
    the group order: where scalar decompositions, folding n -> r - n and windowing have corner cases."""
    from vf.model import params
    z = abs(params.BLS_X) if C.name == "bls12_381" else params.BN_T
    r = C.r
    out = set()
    lam = (z * z - 1) % r if C.name == "bls12_381" else (36 * z ** 3 + 18 * z * z + 6 * z + 1) % r
    for base in (z, z * z, z * z - 1, z ** 3 % r, lam, 6 * z + 2, 6 * z * z % r):
        for k in (1, 2, 3, 31415926535):
            v = (k * base) % r
            out.update((v, r - v, v + 1, r + v, r + 2, 2 * r + v))
    out.update(v for v in nt.endo_scalars(r) if v >= 0)
    out.update(((r - 1) // 2, (r + 1) // 2, r + 2, r + 3, 2 * r + 1, 3 * r + 2, 2 ** 255, 2 ** 254, 2 ** 256 - 1))
    return sorted(v for v in out if v >= 0)


def s_scalar(C, big):
    spec = [0, 1, 2, 3, C.r - 1, C.r, C.r + 1, 2 * C.p - C.r]
    if big:
        return st.one_of(st.sampled_from(spec), st.sampled_from(family_scalars(C)), uniform_int(0, 2 ** 640),
                         uniform_int(0, C.r), st.integers(0, 100))
    return st.one_of(st.sampled_from(spec[:4]), st.integers(0, 2 ** 16), st.integers(0, 2 ** 64))


def t_real(ctx, module, g, shard, n, big, assoc):
    M = mod(module)
    C = M.C
    p = C.p
    sc = st.one_of(st.just(1), uniform_int(2, p - 1)) if M.opt else st.just(1)
    strat = st.fixed_dictionaries({
        "P": s_pspec(C, g), "Q": s_pspec(C, g), "R": s_pspec(C, g),
        "rel": st.sampled_from(["free", "free", "free", "free", "same", "same", "inverse", "inverse",
                                "endo+0", "endo+1", "endo-0", "endo-1"]),
        "n": st.one_of(st.none(), s_scalar(C, big), s_scalar(C, big)),
        "n2": st.one_of(st.none(), s_scalar(C, False)),
        "s1": sc, "s2": sc, "assoc": st.just(assoc)}).map(lambda c: dict(c, module=module, g=g))
    ex = []
    if shard == 0:
        kind = "twist" if g == "G12" else "pt"
        base = {"module": module, "g": g, "R": {"k": 4, "tors": 0, "kind": kind, "inf": False}, "s1": 1, "s2": 1,
                "assoc": assoc, "n2": 3}
        ns = [0, 1, 2, 3] + ([C.r - 1, C.r, C.r + 1, 2 * C.p - C.r] if big else [])
        for i, n_ in enumerate(ns):
            ex.append(dict(base, P={"k": 7 + i, "tors": 0, "kind": kind, "inf": False},
                           Q={"k": 9, "tors": 0, "kind": kind, "inf": i == 1},
                           rel=["free", "same", "inverse"][i % 3], n=n_))
        ex.append(dict(base, P={"k": 1, "tors": 0, "kind": kind, "inf": True},
                       Q={"k": 1, "tors": 0, "kind": kind, "inf": True}, rel="free", n=5))
        if C.name == "bls12_381" and g != "G12":
            for i, (t_, n_) in enumerate(((40, C.r - 1), (41, (1 << 64) + 4), (47, C.r + 1), (10, 2 * C.p - C.r), (52, 0xFEDCBA9876543210F))):
                ex.append(dict(base, P={"k": 3 + i, "tors": t_, "kind": kind, "inf": False},
                               Q={"k": 9, "tors": 0, "kind": kind, "inf": False}, rel="free", n=n_ if big else 3))
        for i, rel_ in enumerate(("endo+0", "endo+1", "endo-0", "endo-1")):
            ex.append(dict(base, P={"k": 13 + i, "tors": 0, "kind": kind, "inf": False},
                           Q={"k": 9, "tors": 0, "kind": kind, "inf": False}, rel=rel_, n=None))
        if g == "G12":
            ex.append(dict(base, P={"k": 11, "tors": 0, "kind": "sum", "inf": False},
                           Q={"k": 5, "tors": 0, "kind": "cast", "inf": False}, rel="free", n=2 ** 20 + 1))
    slow = (g == "G12") or (not M.opt and g == "G2")
    drive(ctx, f"real-{module}-{g}-{shard}", strat, lambda c: o_real(ctx, c), n, ex, shrink=not slow)


def t_consts(ctx, module, n):
    o_consts(ctx, {"module": module})
    M = mod(module)
    C = M.C
    spec = st.fixed_dictionaries({"k": scalar_in(1, C.r - 1), "tors": st.sampled_from([0, 0, 1, 2]),
                                  "inf": st.sampled_from([False] * 7 + [True])})
    sc = st.one_of(st.just(1), uniform_int(2, C.p - 1)) if M.opt else st.just(1)
    strat = st.fixed_dictionaries({"P": spec, "Q": spec, "s1": sc, "s2": sc}).map(lambda c: dict(c, module=module))
    ex = [{"module": module, "P": {"k": 1, "tors": 0, "inf": False}, "Q": {"k": 1, "tors": 0, "inf": False},
           "s1": 1, "s2": 1},
          {"module": module, "P": {"k": 1, "tors": 0, "inf": True}, "Q": {"k": 2, "tors": 1, "inf": False},
           "s1": 1, "s2": 1}]
    drive(ctx, f"twist-{module}", strat, lambda c: o_twist(ctx, c), n, ex, shrink=False)


def odd_curves(p, ext):
    F = Ext(p, (1, 0)) if ext else Fp(p)
    out = []
    for b in F.elements():
        if F.is_zero(b):
            continue
        b = tuple(b) if ext else b
        if (len(ec.points(F, b)) + 1) % 2 == 1:
            out.append(b)
    return out


def tasks(tier):
    mcurves.selfcheck()
    quick = tier == "quick"
    out = []
    for module in MODULES:
        opt = module.startswith("optimized")
        for p in (7, 13, 19) + (() if quick else (31, 37, 43)):
            bs = odd_curves(p, False)
            if quick and p == 19:
                bs = bs[::3]
            if p > 19:
                bs = bs[::4]
            out.append(Task(f"small-{module}-{p}", "t_small", module=module, p=p, ext=False, bs=bs,
                            max_assoc=40 if not quick else 28, stride_seed=p))
        ext_ps = (7,) if quick else (7, 11)
        for p in ext_ps:
            bs = odd_curves(p, True)
            pick = bs[::16] if quick else (bs[::4] if p == 7 else bs[::20])
            for j, b in enumerate(pick):
                out.append(Task(f"small-{module}-{p}x2-{j}", "t_small", module=module, p=p, ext=True, bs=[b],
                                max_assoc=16 if quick else 24, stride_seed=j))
        scale = 1 if quick else 15
        for g, n_opt, n_ref in (("G1", 60, 40), ("G2", 40, 10), ("G12", 6, 2)):
            n = n_opt if opt else n_ref
            shards = 1 if quick else 2
            for s in range(shards):
                out.append(Task(f"real-{module}-{g}-{s}", "t_real", module=module, g=g, shard=s, n=n * scale,
                                big=(g != "G12" and (opt or g == "G1")), assoc=(g != "G12" or opt)))
        out.append(Task(f"consts-{module}", "t_consts", module=module, n=(12 if opt else 3) * scale))
    out.sort(key=lambda t: 0 if ("real" in t.name and "G12" in t.name) else 1 if "real" in t.name else 2)
    return out
