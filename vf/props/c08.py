"""C08 - field classes satisfy the field axioms with canonical representatives."""
import itertools

from hypothesis import strategies as st

from vf.harness import HarnessError, Task, drive
from vf.model import fields as mf
from vf.props import _fields_common as fc
from vf.strategies import field_elt, uniform_int

RULE = ("(A) reference and optimized FQ/FQ2/FQ12 instantiated over small primes and every "
        "irreducible quadratic (canonical and negative coefficient form) / two degree-12 moduli: "
        "all elements, all pairs (+ - * /, int operands in [-2p,3p), pow), triples (axioms), each "
        "result compared with an independent polynomial-arithmetic model and checked reduced - "
        "distinct by construction, non-trivial unless every operand is 0 or 1; (B) Hypothesis on the "
        "real 254/381-bit classes: axioms, inverse/division, int operands, x**n vs model for "
        "n up to p^12: non-trivial = an operand with a zero coefficient in * / inv, an unreduced int "
        "operand, or an exponent >= 745 bits; distinct by (class, op, operands)")
ASSUMPTIONS = ["model arithmetic in vf/model/fields.py (schoolbook product, long-division reduction, "
               "inverse by linear algebra); Rabin irreducibility test for the small moduli",
               "== and < against raw ints are generated only for ints in [0, p) (DESIGN.md section 0)"]
ENGINE = "exhaustive enumeration over small fields + hypothesis on the real fields"
TECHNIQUE = ("exhaustive enumeration over small fields + property-based testing (Hypothesis) of field axioms on the real fields, differential against independent polynomial arithmetic")
REQUIRED_LABELS = {t: ["B:pow:exp>=745bits", "B:int_unreduced", "B:zero_coeff", "A:fq", "A:fq2", "A:fq12",
                       "B:div0"] for t in ("quick", "thorough")}

UN_OPS = ("neg", "inv", "sq", "dbl")
BIN_OPS = ("add", "sub", "mul", "div")
INT_OPS_FQ = ("add_i", "radd_i", "sub_i", "rsub_i", "mul_i", "rmul_i", "div_i", "rdiv_i")
INT_OPS_FQP = ("mul_i", "rmul_i", "div_i")


# ---- building elements -------------------------------------------------------------------------
class Env:
    """One field class of the library together with its model."""

    def __init__(self, impl, p, mc=None, real=None, kind=None):
        self.impl, self.p, self.mc, self.real = impl, p, (tuple(mc) if mc is not None else None), real
        if real:
            FQ, FQ2, FQ12 = fc.real(impl, real)
            self.kind = kind
            self.cls = {"fq": FQ, "fq2": FQ2, "fq12": FQ12}[kind]
            mcs = {"fq": None, "fq2": fc.REAL[real][1], "fq12": fc.REAL[real][2]}[kind]
            self.F = fc.model_field(p, mcs)
        else:
            if mc is None:
                self.kind = "fq"
                self.cls = fc.make(impl, p)[0]
            elif len(mc) == 2:
                self.kind = "fq2"
                self.cls = fc.make(impl, p, mc2=mc)[1]
            else:
                self.kind = "fq12"
                self.cls = fc.make(impl, p, mc12=mc)[2]
            self.F = fc.model_field(p, mc)
        self.is_fq = self.kind == "fq"

    def el(self, v):
        return self.cls(v) if self.is_fq else self.cls(list(v))

    def desc(self):
        d = {"impl": self.impl, "p": self.p}
        if self.real:
            d["real"], d["kind"] = self.real, self.kind
        elif self.mc is not None:
            d["mc"] = list(self.mc)
        return d


def env_from(case):
    return Env(case["impl"], case["p"], case.get("mc"), case.get("real"), case.get("kind"))


def lib_apply(env, op, a, b=None, c=None, n=None):
    """Evaluate one operation with the library; returns a library element or bool/int."""
    A = env.el(a)
    if op == "neg":
        return -A
    if op == "inv":
        return (1 / A) if env.is_fq else A.inv()
    if op == "sq":
        return A * A
    if op == "dbl":
        return A + A
    if op == "sgn0":
        return A.sgn0
    if op == "pow":
        return A ** n
    if op in BIN_OPS:
        B = env.el(b)
        return {"add": lambda: A + B, "sub": lambda: A - B, "mul": lambda: A * B,
                "div": lambda: A / B}[op]()
    if op in INT_OPS_FQ:
        k = b
        return {"add_i": lambda: A + k, "radd_i": lambda: k + A, "sub_i": lambda: A - k,
                "rsub_i": lambda: k - A, "mul_i": lambda: A * k, "rmul_i": lambda: k * A,
                "div_i": lambda: A / k, "rdiv_i": lambda: k / A}[op]()
    if op == "eq":
        return A == env.el(b)
    if op == "ne":
        return A != env.el(b)
    if op == "eq_i":
        return A == b
    if op == "lt":
        return A < env.el(b)
    if op == "one":
        return env.cls.one()
    if op == "zero":
        return env.cls.zero()
    raise HarnessError(f"unknown op {op}")


def model_apply(env, op, a, b=None, c=None, n=None):
    F = env.F
    a = F.el(a) if not env.is_fq else a % env.p
    if op == "neg":
        return F.neg(a)
    if op == "inv":
        return F.inv0(a)
    if op == "sq":
        return F.mul(a, a)
    if op == "dbl":
        return F.add(a, a)
    if op == "sgn0":
        return F.sgn0(a)
    if op == "pow":
        return F.pow(a, n)
    if op in BIN_OPS:
        b = F.el(b) if not env.is_fq else b % env.p
        if op == "div":
            return F.mul(a, F.inv0(b))
        return getattr(F, op)(a, b)
    if op in INT_OPS_FQ:
        k = F.from_int(b)
        return {"add_i": lambda: F.add(a, k), "radd_i": lambda: F.add(k, a),
                "sub_i": lambda: F.sub(a, k), "rsub_i": lambda: F.sub(k, a),
                "mul_i": lambda: F.mul(a, k), "rmul_i": lambda: F.mul(k, a),
                "div_i": lambda: F.mul(a, F.inv0(k)), "rdiv_i": lambda: F.mul(k, F.inv0(a))}[op]()
    if op == "eq":
        return a == (F.el(b) if not env.is_fq else b % env.p)
    if op == "ne":
        return a != (F.el(b) if not env.is_fq else b % env.p)
    if op == "eq_i":
        return a == b
    if op == "lt":
        return a < b % env.p
    if op == "one":
        return F.one
    if op == "zero":
        return F.zero
    raise HarnessError(f"unknown op {op}")


def check_op(ctx, env, sub, op, a, b=None, n=None):
    """One operation: library vs model + reduced form.  Returns the library value."""
    ctx.ev()
    ctx.lazy = lambda: (sub, dict(env.desc(), op=op, a=_j(a), b=_j(b), n=n))
    got = lib_apply(env, op, a, b, n=n)
    want = model_apply(env, op, a, b, n=n)
    if op in ("eq", "ne", "eq_i", "lt", "sgn0"):
        ok = (type(got) in (bool, int)) and bool(got) == bool(want) if op != "sgn0" else got == want
        gv = got
    else:
        gv = fc.val(got)
        ok = gv == want and fc.reduced_ok(got, env.cls, env.p)
    if not ok:
        case = dict(env.desc(), op=op, a=_j(a), b=_j(b), n=n)
        ctx.violation(sub, f"op:{op}", case,
                      f"{env.impl} {env.kind} over p={env.p if env.p < 10**6 else 'real'}: {op}"
                      f"({a}, {b}, n={n}) = {gv} (type {type(got).__name__}), model: {want}"[:600],
                      {"impl": env.impl, "kind_f": env.kind, "op": op})
    return got


def _j(x):
    return list(x) if isinstance(x, tuple) else x


def o_op(ctx, case):
    """Replay / single-case oracle."""
    env = env_from(case)
    a = tuple(case["a"]) if isinstance(case["a"], list) else case["a"]
    b = tuple(case["b"]) if isinstance(case.get("b"), list) else case.get("b")
    ctx.begin("op", case)
    check_op(ctx, env, "op", case["op"], a, b, case.get("n"))


def check_law(ctx, env, sub, law, vals, cond, detail=""):
    ctx.ev()
    ctx.lazy = None
    if not cond:
        case = dict(env.desc(), law=law, vals=[_j(v) for v in vals])
        ctx.violation(sub, f"law:{law}", case, f"{env.impl} {env.kind}: law {law} fails on {vals} {detail}"[:600],
                      {"impl": env.impl, "kind_f": env.kind, "law": law})


def laws3(ctx, env, sub, a, b, c):
    A, B, C = env.el(a), env.el(b), env.el(c)
    check_law(ctx, env, sub, "assoc_add", (a, b, c), (A + B) + C == A + (B + C))
    check_law(ctx, env, sub, "assoc_mul", (a, b, c), (A * B) * C == A * (B * C))
    check_law(ctx, env, sub, "distrib", (a, b, c), A * (B + C) == A * B + A * C)
    check_law(ctx, env, sub, "distrib_r", (a, b, c), (A + B) * C == A * C + B * C)


def laws2(ctx, env, sub, a, b):
    A, B = env.el(a), env.el(b)
    zero, one = env.cls.zero(), env.cls.one()
    check_law(ctx, env, sub, "comm_add", (a, b), A + B == B + A)
    check_law(ctx, env, sub, "comm_mul", (a, b), A * B == B * A)
    check_law(ctx, env, sub, "sub_add", (a, b), (A - B) + B == A)
    if B != zero:
        check_law(ctx, env, sub, "div_mul", (a, b), (A / B) * B == A)
    else:
        check_law(ctx, env, sub, "div0", (a, b), A / B == zero)
        ctx.label("B:div0" if env.real else "A:div0")
    check_law(ctx, env, sub, "neutral", (a,), A + zero == A and A * one == A and A * zero == zero)
    check_law(ctx, env, sub, "neg", (a,), A + (-A) == zero)
    if A != zero:
        inv = (1 / A) if env.is_fq else A.inv()
        check_law(ctx, env, sub, "inv", (a,), A * inv == one)


law_names = ("assoc_add", "assoc_mul", "distrib", "distrib_r", "comm_add", "comm_mul", "sub_add",
             "div_mul", "div0", "neutral", "neg", "inv")


def o_law(ctx, case):
    env = env_from(case)
    vals = [tuple(v) if isinstance(v, list) else v for v in case["vals"]]
    ctx.begin("law", case)
    if len(vals) == 3:
        laws3(ctx, env, "law", *vals)
    elif len(vals) == 2:
        laws2(ctx, env, "law", *vals)
    else:
        laws2(ctx, env, "law", vals[0], vals[0])


# ---- (A) exhaustive small fields -------------------------------------------------------------
def trivial(v):
    return v in (0, 1) or (isinstance(v, tuple) and (not any(v) or (v[0] == 1 and not any(v[1:]))))


def t_fq_small(ctx, impl, primes):
    for p in primes:
        env = Env(impl, p)
        els = list(range(p))
        cnt = 0
        for a in els:
            for op in ("neg", "inv", "sq", "dbl"):
                check_op(ctx, env, "fq_small", op, a); cnt += 1
            if impl == "opt":
                check_op(ctx, env, "fq_small", "sgn0", a); cnt += 1
            for n in list(range(0, 2 * p + 3)) + [p ** 3, p ** 7 + 5]:
                check_op(ctx, env, "fq_small", "pow", a, n=n); cnt += 1
            for k in range(-2 * p, 3 * p):
                for op in INT_OPS_FQ:
                    check_op(ctx, env, "fq_small", op, a, k); cnt += 1
            for k in range(p):
                check_op(ctx, env, "fq_small", "eq_i", a, k); cnt += 1
            for b in els:
                for op in BIN_OPS + ("eq", "ne", "lt"):
                    check_op(ctx, env, "fq_small", op, a, b); cnt += 1
                laws2(ctx, env, "fq_small", a, b)
                if not (trivial(a) and trivial(b)):
                    ctx.nontrivial_bulk(len(BIN_OPS) + 3)
        if p <= 7:
            for a, b, c in itertools.product(els, repeat=3):
                laws3(ctx, env, "fq_small", a, b, c)
                if not (trivial(a) and trivial(b) and trivial(c)):
                    ctx.nontrivial_bulk(4)
        check_op(ctx, env, "fq_small", "one", 0)
        check_op(ctx, env, "fq_small", "zero", 0)
        ctx.label("A:fq", cnt)
        ctx.subspace(f"{impl} FQ over GF({p}): all elements, all pairs, int operands in [-2p,3p), "
                     f"powers 0..2p+2" + (", all triples" if p <= 7 else ""), cnt)
        ctx.sample({"impl": impl, "p": p, "space": "all elements/pairs of GF(p)"}, f"fq_small:{impl}")


def t_fq2_small(ctx, impl, p, moduli, triple_stride):
    for mc in moduli:
        env = Env(impl, p, mc)
        F = env.F
        els = [tuple(e) for e in F.elements()]
        q = p * p
        cnt = 0
        for a in els:
            for op in ("neg", "inv", "sq", "dbl"):
                check_op(ctx, env, "fq2_small", op, a); cnt += 1
            if impl == "opt":
                check_op(ctx, env, "fq2_small", "sgn0", a); cnt += 1
            for n in list(range(0, 12)) + [q - 2, q - 1, q, q + 1, q * q + 3, 2 * (q - 1), 3 * (q - 1), 2 * (q - 1) + 1]:
                check_op(ctx, env, "fq2_small", "pow", a, n=n); cnt += 1
            for k in range(-2 * p, 3 * p):
                for op in INT_OPS_FQP:
                    check_op(ctx, env, "fq2_small", op, a, k); cnt += 1
            for b in els:
                for op in BIN_OPS + ("eq", "ne"):
                    check_op(ctx, env, "fq2_small", op, a, b); cnt += 1
                laws2(ctx, env, "fq2_small", a, b)
                if not (trivial(a) and trivial(b)):
                    ctx.nontrivial_bulk(len(BIN_OPS) + 2)
        k = 0
        for a, b, c in itertools.product(els, repeat=3):
            k += 1
            if k % triple_stride:
                continue
            laws3(ctx, env, "fq2_small", a, b, c)
            ctx.nontrivial_bulk(4)
        check_op(ctx, env, "fq2_small", "one", els[0])
        check_op(ctx, env, "fq2_small", "zero", els[0])
        ctx.label("A:fq2", cnt)
        ctx.subspace(f"{impl} FQ2 over GF({p})[x]/(x^2+{mc[1]}x+{mc[0]}): all elements and pairs; "
                     f"triples stride {triple_stride}", cnt)
    ctx.sample({"impl": impl, "p": p, "moduli": [list(m) for m in moduli]}, f"fq2_small:{impl}")


def idx_to_el(i, p, d=12):
    out = []
    for _ in range(d):
        out.append(i % p)
        i //= p
    return tuple(out)


def t_fq12_small(ctx, impl, p, mc, n_unary, n_pairs, chunk, nchunks):
    env = Env(impl, p, mc)
    q = p ** 12
    total = q if q <= n_unary else n_unary
    stride = 1 if q <= n_unary else (q // n_unary) | 1
    idxs = [(i * stride + 7 * (stride > 1)) % q for i in range(total)]
    mine = idxs[chunk::nchunks]
    if chunk == 0:
        mine = [0, 1] + [i for i in mine if i > 1]
    cnt = 0
    for i in mine:
        a = idx_to_el(i, p)
        for op in ("neg", "inv", "sq"):
            check_op(ctx, env, "fq12_small", op, a); cnt += 1
        if impl == "opt":
            check_op(ctx, env, "fq12_small", "sgn0", a); cnt += 1
        A = env.el(a)
        if any(a):
            check_law(ctx, env, "fq12_small", "inv", (a,), A * A.inv() == env.cls.one())
            check_law(ctx, env, "fq12_small", "div_self", (a,), A / A == env.cls.one())
        else:
            check_law(ctx, env, "fq12_small", "div0", (a,), A / A == env.cls.zero())
        for k in (-1, p, 2 * p + 1, -p - 2):
            for op in INT_OPS_FQP:
                check_op(ctx, env, "fq12_small", op, a, k); cnt += 1
        if not trivial(a):
            ctx.nontrivial_bulk(3)
    # pairs / triples on a deterministic sub-grid
    sub = mine[:: max(1, len(mine) // max(1, n_pairs))][:n_pairs]
    els = [idx_to_el(i, p) for i in sub]
    if chunk == 0:
        els = [idx_to_el(0, p), idx_to_el(1, p)] + els
    for x, a in enumerate(els):
        b = els[(x * 7 + 3) % len(els)]
        c = els[(x * 11 + 5) % len(els)]
        for op in BIN_OPS:
            check_op(ctx, env, "fq12_small", op, a, b); cnt += 1
        laws2(ctx, env, "fq12_small", a, b)
        laws3(ctx, env, "fq12_small", a, b, c)
        for n in (0, 1, 2, 3, 5, p, q - 1, q, q - 2, 2 * (q - 1), 3 * (q - 1)):
            check_op(ctx, env, "fq12_small", "pow", a, n=n); cnt += 1
        ctx.nontrivial_bulk(4)
    ctx.label("A:fq12", cnt)
    ctx.subspace(f"{impl} FQ12 over GF({p}) modulus {list(mc)}: unary ops on "
                 f"{'ALL' if stride == 1 else 'stride-sampled'} {len(mine)} elements (chunk {chunk}/{nchunks})",
                 cnt, complete=(stride == 1))
    ctx.sample({"impl": impl, "p": p, "mc": list(mc), "unary_elements": len(mine)}, f"fq12_small:{impl}:{p}")


def t_gf4096_pairs(ctx, impl, mc, chunk, nchunks):
    """All pairs of GF(2^12) for + and * (thorough)."""
    env = Env(impl, 2, mc)
    els = [idx_to_el(i, 2) for i in range(4096)]
    cnt = 0
    for a in els[chunk::nchunks]:
        A = env.el(a)
        for b in els:
            B = env.el(b)
            ctx.ev(2)
            s, m = fc.val(A + B), fc.val(A * B)
            if s != env.F.add(a, b):
                check_op(ctx, env, "fq12_small", "add", a, b)
            if m != env.F.mul(a, b):
                check_op(ctx, env, "fq12_small", "mul", a, b)
            cnt += 2
    ctx.nontrivial_bulk(cnt)
    ctx.subspace(f"{impl} FQ12 over GF(2) {list(mc)}: all pairs + and * (chunk {chunk}/{nchunks})", cnt)


# ---- (B) real fields --------------------------------------------------------------------------
INTS_SPECIAL = lambda p: [0, 1, -1, 2, -2, p, p + 1, -p, 2 * p + 3, 2 ** 400, -2 ** 400, p - 1]  # noqa


def s_el(p, d):
    if d == 1:
        return field_elt(p)
    coeff = field_elt(p)
    dense = st.lists(coeff, min_size=d, max_size=d).map(tuple)
    sparse = st.tuples(st.lists(coeff, min_size=d, max_size=d),
                       st.lists(st.booleans(), min_size=d, max_size=d)).map(
        lambda t: tuple(c if m else 0 for c, m in zip(*t)))
    return st.one_of(dense, sparse, sparse)


def s_int(p):
    return st.one_of(st.sampled_from(INTS_SPECIAL(p)), st.integers(-2 ** 520, 2 ** 520),
                     uniform_int(-2 ** 520, 2 ** 520), st.integers(0, p - 1))


def has_zero_coeff(v):
    return (v == 0) if isinstance(v, int) else any(c == 0 for c in v)


def o_real(ctx, case):
    """case: {impl, real, kind, p, a, b, c, k, n}"""
    env = env_from(case)
    a, b, c = (tuple(case[x]) if isinstance(case[x], list) else case[x] for x in "abc")
    k, n = case["k"], case["n"]
    ctx.begin("real", case)
    sub = "real"
    for op in ("neg", "inv", "sq", "dbl"):
        check_op(ctx, env, sub, op, a)
    if env.impl == "opt":
        check_op(ctx, env, sub, "sgn0", a)
    for op in BIN_OPS + ("eq", "ne"):
        check_op(ctx, env, sub, op, a, b)
    check_op(ctx, env, sub, "eq", a, a)
    for op in (INT_OPS_FQ if env.is_fq else INT_OPS_FQP):
        check_op(ctx, env, sub, op, a, k)
    if env.is_fq:
        check_op(ctx, env, sub, "lt", a, b)
        check_op(ctx, env, sub, "eq_i", a, k % env.p)
        check_op(ctx, env, sub, "eq_i", a, a)
    laws2(ctx, env, sub, a, b)
    laws3(ctx, env, sub, a, b, c)
    # division by zero: inv0 convention
    zero = 0 if env.is_fq else (0,) * env.F.degree
    check_op(ctx, env, sub, "div", a, zero)
    check_op(ctx, env, sub, "inv", zero)
    check_op(ctx, env, sub, "div_i", a, 0)
    check_op(ctx, env, sub, "div_i", a, env.p)
    ctx.label("B:div0")
    if n is not None:
        check_op(ctx, env, sub, "pow", a, n=n)
        ctx.label("B:pow:exp>=745bits" if n.bit_length() >= 745 else "B:pow:small_exp")
    nt_ = False
    if has_zero_coeff(a) or has_zero_coeff(b):
        ctx.label("B:zero_coeff"); nt_ = True
    if not 0 <= k < env.p:
        ctx.label("B:int_unreduced"); nt_ = True
    if n is not None and n.bit_length() >= 745:
        nt_ = True
    ctx.label(f"B:{env.impl}:{env.real}:{env.kind}")
    if nt_:
        ctx.nontrivial(("r", env.impl, env.real, env.kind, case["a"], case["b"], case["c"], k, n))
    ctx.sample(case, f"real:{env.impl}:{env.real}:{env.kind}")


def o_powlaw(ctx, case):
    """x^(m+n) = x^m x^n, (x^m)^n = x^(mn), x^(q-1) = 1, literal n-fold product for small n."""
    env = env_from(case)
    a = tuple(case["a"]) if isinstance(case["a"], list) else case["a"]
    m, n, small = case["m"], case["n"], case["small"]
    ctx.begin("powlaw", case)
    A = env.el(a)
    one = env.cls.one()
    q = env.F.order
    check_law(ctx, env, "powlaw", "pow_add", (a, m, n), A ** (m + n) == (A ** m) * (A ** n))
    if case.get("nested", True):
        check_law(ctx, env, "powlaw", "pow_mul", (a, m, n), (A ** m) ** n == A ** (m * n))
    if A != env.cls.zero():
        check_law(ctx, env, "powlaw", "fermat", (a,), A ** (q - 1) == one)
    check_law(ctx, env, "powlaw", "frobenius_fixed", (a,), A ** q == A)
    prod = one
    for _ in range(small):
        prod = prod * A
    check_law(ctx, env, "powlaw", "nfold", (a, small), A ** small == prod)
    check_op(ctx, env, "powlaw", "pow", a, n=m)
    big = max(m + n, q).bit_length() >= 745
    ctx.label("B:pow:exp>=745bits" if big else "B:pow:small_exp")
    ctx.label(f"B:powlaw:{env.kind}")
    if big:
        ctx.nontrivial(("pl", env.impl, env.real, env.kind, case["a"], m, n, small))
    ctx.sample(case, f"powlaw:{env.impl}:{env.real}:{env.kind}")


ORACLES = {"op": o_op, "law": o_law, "real": o_real, "powlaw": o_powlaw,
           "fq_small": o_op, "fq2_small": o_op, "fq12_small": o_op}
# law violations found in the exhaustive tasks carry a 'law' key: route them
for _k in ("fq_small", "fq2_small", "fq12_small", "real", "powlaw"):
    pass


def _route(ctx, case):
    if "law" in case:
        return o_law(ctx, case)
    if "op" in case and "c" not in case:
        return o_op(ctx, case)
    if "small" in case:
        return o_powlaw(ctx, case)
    return o_real(ctx, case)


ORACLES = {k: _route for k in ("op", "law", "real", "powlaw", "fq_small", "fq2_small", "fq12_small")}


def exps(p, d):
    q = p ** d
    spec = [0, 1, 2, 3, p, p - 1, p + 1, p * p - 1, q - 1, q, q - 2, 2 ** 745, 2 ** 744 - 1, 2 ** 1000 + 1,
            2 * (q - 1), 3 * (q - 1), 2 * (q - 1) + 1, 5 * (q - 1)]
    if d == 12:
        spec += [(q - 1) // 3, p ** 6]
    return st.one_of(st.sampled_from(spec), uniform_int(0, q), uniform_int(0, 2 ** 800), st.integers(0, 1000))


def t_real(ctx, impl, real, kind, shard, n, npow):
    p, mc2, mc12 = fc.REAL[real]
    d = {"fq": 1, "fq2": 2, "fq12": 12}[kind]
    base = {"impl": impl, "real": real, "kind": kind, "p": p}
    el = s_el(p, d).map(lambda v: list(v) if isinstance(v, tuple) else v)
    strat = st.fixed_dictionaries({"a": el, "b": el, "c": el, "k": s_int(p),
                                   "n": st.one_of(st.none(), st.integers(0, 70))}).map(lambda c: dict(base, **c))
    drive(ctx, f"real{shard}", strat, lambda c: o_real(ctx, c), n)
    pstrat = st.fixed_dictionaries({"a": el, "m": exps(p, d), "n": exps(p, d) if d < 12 else st.integers(0, 2 ** 64),
                                    "small": st.integers(0, 40)}).map(lambda c: dict(base, **c))
    drive(ctx, f"pow{shard}", pstrat, lambda c: o_powlaw(ctx, c), npow, shrink=(d < 12))
    if shard == (1 if (kind == "fq12" and impl == "ref") else 0):
        q = p ** d
        zero = 0 if d == 1 else [0] * d
        one = 1 if d == 1 else [1] + [0] * (d - 1)
        for a, n_ in ((zero, 0), (zero, q - 1), (zero, 2 ** 745), (one, q - 1), (zero, 2 * (q - 1)), (zero, 3 * (q - 1)),
                      (zero, q), (one, 2 * (q - 1))):
            c = dict(base, op="pow", a=a, b=None, n=n_)
            o_op(ctx, c)
            ctx.label("B:pow:zero_or_one_base")
            ctx.nontrivial(("p01", impl, real, kind, str(a), n_))


def selfcheck():
    for p in (2, 3, 5, 7):
        for mc in fc.find_deg12(p):
            F = mf.Ext(p, mc)
            x = tuple((i * 3 + 1) % p for i in range(12))
            if F.pow(x, p ** 12 - 1) != F.one or F.mul(x, F.inv(x)) != F.one:
                raise HarnessError(f"model GF({p}^12) with {mc} is not a field")
    for real, (p, mc2, mc12) in fc.REAL.items():
        F = mf.Ext(p, mc12)
        x = tuple(range(3, 15))
        if F.mul(x, F.inv(x)) != F.one:
            raise HarnessError("model FQ12 inverse broken")


def tasks(tier):
    selfcheck()
    quick = tier == "quick"
    out = []
    for impl in ("ref", "opt"):
        out.append(Task(f"fq-small-{impl}", "t_fq_small", impl=impl,
                        primes=[2, 3, 5, 7, 11, 13] + ([] if quick else [17, 19, 23])))
        for p in (2, 3, 5, 7) + (() if quick else (11,)):
            mods = fc.irreducible_quadratics(p)
            mods = mods + [fc.neg_form(m, p) for m in mods]
            if p >= 7 and quick:
                mods = mods[::4] + [fc.neg_form((1, 0), p)]
            if p == 11:
                mods = mods[::9]
            stride = 1 if p <= 3 else (37 if p == 5 else 997)
            if not quick and p == 5:
                stride = 5
            out.append(Task(f"fq2-small-{impl}-{p}", "t_fq2_small", impl=impl, p=p, moduli=mods,
                            triple_stride=stride))
        for p in (2, 3, 5, 7):
            for j, mc in enumerate(fc.find_deg12(p)):
                mcs = [mc] if j == 0 else [fc.neg_form(mc, p)]
                for mcx in mcs:
                    nun = 4096 if p == 2 else (600 if quick else 20000)
                    if quick and p == 2:
                        nun = 4096 if impl == "opt" else 1024
                    nch = 1 if quick else 4
                    for ch in range(nch):
                        out.append(Task(f"fq12-small-{impl}-{p}-{j}-{ch}", "t_fq12_small", impl=impl, p=p,
                                        mc=mcx, n_unary=nun, n_pairs=40 if quick else 400, chunk=ch,
                                        nchunks=nch))
        if not quick:
            mc = fc.find_deg12(2)[0]
            for ch in range(8):
                out.append(Task(f"gf4096-pairs-{impl}-{ch}", "t_gf4096_pairs", impl=impl, mc=mc, chunk=ch,
                                nchunks=8))
        for real in ("bn128", "bls12_381"):
            for kind in ("fq", "fq2", "fq12"):
                n = {"fq": 300, "fq2": 150, "fq12": 25}[kind] * (1 if quick else 30)
                npow = {"fq": 40, "fq2": 25, "fq12": 3}[kind] * (1 if quick else 12)
                shards = 1 if quick else 4
                if kind == "fq12" and impl == "ref":
                    shards *= 2
                    n, npow = n // 2, max(2, npow // 2)
                for s in range(shards):
                    out.append(Task(f"real-{impl}-{real}-{kind}-{s}", "t_real", impl=impl, real=real,
                                    kind=kind, shard=s, n=n, npow=npow))
    return out
