"""C09 - BLS outputs are the byte strings mandated by the IETF ciphersuites."""
from hypothesis import strategies as st

from vf.harness import HarnessError, Task, drive, hx, run_cases_optimized, unhx
from vf.model import bls12381 as B
from vf.model import blssig, vectors
from vf.props import _bls_common as bc
from vf.props import _sig_common as sc
from vf.strategies import msg as s_msg

R = B.R
RULE = ("(suite, sk, message) from Hypothesis - sk in {1, 2, r-2, r-1}, every bit length, uniform 255-bit; "
        "messages empty, at the SHA-256 block boundaries, binary, (thorough) multi-KiB - SkToPk, Sign, "
        "PopProve and Aggregate compared byte for byte with an independent implementation of "
        "draft-irtf-cfrg-bls-signature-04 (own field/curve arithmetic, RFC 9380 straight-line hash to curve, "
        "own ZCash encoder, suite tags written out as the draft's literal strings); the published Ethereum "
        "vectors (9 signatures, 3 public keys, 2 aggregates) and the generator encodings are replayed "
        "against both the model and the library in every run. Non-trivial = a case with sk >= 2^128 or a "
        "non-empty message, an aggregate of >= 2 signatures, or a cross-suite call sequence (the same key and message signed under all suites and as a possession proof, forwards and backwards, in one process); distinct by (suite, entry point, sk, sha256(msg))")
ASSUMPTIONS = ["the independent model vf/model/{blssig,h2c,bls12381}.py and its frozen isogeny coefficients; "
               "anchored by RFC 9380 J.9.1/J.10.1, EIP-2333 and Ethereum consensus-spec BLS vectors",
               "hashlib.sha256 is correct"]
ENGINE = "hypothesis"
TECHNIQUE = ("differential property-based testing (Hypothesis) against an independent implementation of the IETF draft anchored by published vectors; cross-suite call sequences")
_REQ = ["python_-O:cases", "python_-bb:cases", "sign:derived_tag", "cross_suite_sequence", "sign:msg_contains_own_pk", "sign:basic", "sign:aug", "sign:pop", "pop_prove", "aggregate:n>=2", "aggregate:n>=7", "aggregate:n_with_three_one_bits", "anchor:eth_sig", "anchor:eth_agg",
        "anchor:eth_pk", "sign:sk>=200b", "sign:msg=empty", "sign:msg=56-64", "aggregate:non_subgroup", "aggregate:prefix_sums_to_identity", "aggregate:result_y_im=0"]
REQUIRED_LABELS = {"quick": _REQ, "thorough": _REQ}


def selfcheck():
    B.selfcheck()
    for (i, j), sig in vectors.ETH_SIGS.items():
        if blssig.sign("pop", vectors.ETH_SKS[i], vectors.ETH_MSGS[j]) != sig:
            raise HarnessError("model disagrees with a published Ethereum signature")
        break  # one is enough at start-up; all of them are replayed as cases
    if blssig.sk_to_pk(vectors.ETH_SKS[0]) != vectors.ETH_PKS[0]:
        raise HarnessError("model disagrees with a published Ethereum public key")


class _Int(int):
    pass


class _Bytes(bytes):
    pass


def o_sign(ctx, case):
    suite, sk, msg = case["suite"], case["sk"], unhx(case["msg"])
    ctx.begin("sign", case)
    S = sc.lib_suite(suite)
    pk = S.SkToPk(sk)
    want_pk = blssig.sk_to_pk(sk)
    ctx.check(isinstance(pk, bytes) and pk == want_pk, "sign", "pubkey", case,
              f"SkToPk = {pk!r}, draft: compress(sk*G1) = {want_pk.hex()}")
    sig = S.Sign(sk, msg)
    want = blssig.sign(suite, sk, msg)
    if case.get("subclassed"):
        # the key as an instance of an int subclass and the message as an instance of a bytes subclass: the same
        # values, so the same signature (a refusal by a stricter type gate would be legitimate)
        from eth_utils import ValidationError
        try:
            got_s = S.Sign(_Int(sk), _Bytes(msg))
        except (TypeError, ValidationError):
            ctx.label("sign:subclass_instances_refused")
        else:
            ctx.check(bytes(got_s) == want, "sign", "argument_subclass", case,
                      "Sign(int-subclass key, bytes-subclass message) differs from Sign on the plain values")
            ctx.label("sign:subclass_instances")
    if case.get("tag") is not None:
        # the same through a suite derived with an application tag: the draft's value under THAT tag
        tag = unhx(case["tag"])
        A = sc.derived_suite(suite, tag)
        if A is None:
            ctx.label("sign:derived_suites_refused")
        else:
            got_a = A.Sign(sk, msg)
            want_a = B.signature_bytes(blssig.core_sign_point(sk, want_pk + msg if suite == "aug" else msg, tag))
            ctx.check(got_a == want_a, "sign", "derived_suite_signature", case,
                      f"{S.__name__} derived with DST={tag!r}: Sign is not the draft's value under that tag")
            if suite == "pop":
                ctx.check(A.PopProve(sk) == B.signature_bytes(blssig.core_sign_point(sk, want_pk, b"APP-POP")), "sign",
                          "derived_suite_proof", case, "PopProve of a derived suite does not use its POP_TAG")
            ctx.check(S.Sign(sk, msg) == want, "sign", "stock_after_derived", case,
                      "the stock suite's Sign changed after a derived suite was used")
            ctx.label("sign:derived_tag")
    ctx.check(isinstance(sig, bytes) and sig == want, "sign", "signature", case,
              f"{S.__name__}.Sign = {sig.hex() if isinstance(sig, bytes) else sig!r}, draft value = {want.hex()}")
    if "expect_sig" in case:
        if want != unhx(case["expect_sig"]) or want_pk != unhx(case["expect_pk"]):
            raise HarnessError("model disagrees with a published vector")
        ctx.label("anchor:eth_sig")
        ctx.label("anchor:eth_pk")
    ctx.label(f"sign:{suite}")
    if case.get("own_pk"):
        ctx.label("sign:msg_contains_own_pk")
    ctx.label(f"sign:sk{sc.sk_class(sk)}" if sc.sk_class(sk) != "boundary" else "sign:sk=boundary")
    if sk.bit_length() >= 200:
        ctx.label("sign:sk>=200b")
    ctx.label(f"sign:msg={sc.msg_class(msg)}")
    if sk >= (1 << 128) or msg:
        ctx.nontrivial(("s", suite, sk, case["msg"]))
    ctx.sample(case, f"sign:{suite}")


def o_cross(ctx, case):
    """The same (sk, message) signed under the three suites and as a possession proof, in a drawn order
    and then again in the reverse order, inside one process: every output must be the draft's value
    whatever was computed before it (suite tags separate the suites, not the call history)."""
    sk, msg, order = case["sk"], unhx(case["msg"]), case["order"]
    ctx.begin("cross", case)
    names = ["basic", "aug", "pop", "popprove"]
    seq = [names[i % 4] for i in order] + [names[i % 4] for i in reversed(order)]
    for pos, nm in enumerate(seq):
        if nm == "popprove":
            got, want = sc.lib_suite("pop").PopProve(sk), blssig.pop_prove(sk)
            # and the message-signature of the key bytes under the POP suite right after it
            got2, want2 = sc.lib_suite("pop").Sign(sk, blssig.sk_to_pk(sk)), blssig.sign("pop", sk, blssig.sk_to_pk(sk))
            ctx.check(got2 == want2, "cross", "sign_of_key_bytes_after_popprove", case,
                      "G2ProofOfPossession.Sign(sk, pk) right after PopProve(sk) is not the draft's value")
        else:
            got, want = sc.lib_suite(nm).Sign(sk, msg), blssig.sign(nm, sk, msg)
        ctx.check(got == want, "cross", f"history_dependent:{nm}", case,
                  f"{nm} output at position {pos} of the sequence {seq} is not the draft's value")
    ctx.label("cross_suite_sequence")
    ctx.nontrivial(("x", sk, case["msg"], order))
    ctx.sample(case, "cross")


def o_pop(ctx, case):
    sk = case["sk"]
    ctx.begin("pop_prove", case)
    S = sc.lib_suite("pop")
    proof = S.PopProve(sk)
    want = blssig.pop_prove(sk)
    ctx.check(isinstance(proof, bytes) and proof == want, "pop_prove", "proof", case,
              f"PopProve = {proof.hex() if isinstance(proof, bytes) else proof!r}, draft value = {want.hex()}")
    ctx.label("pop_prove")
    ctx.nontrivial(("p", sk))
    ctx.sample(case, "pop_prove")


def o_aggregate(ctx, case):
    """Aggregate over byte strings: honest signatures (model-made) and, optionally, encodings of
    on-curve points outside the subgroup (the group sum is still defined)."""
    suite = case["suite"]
    ctx.begin("aggregate", case)
    S = sc.lib_suite(suite)
    sigs = [unhx(s) for s in case["sigs"]]
    pts = [B.signature_point(s) for s in sigs]
    want = B.signature_bytes(blssig.aggregate_points(pts))
    got = S.Aggregate(sigs)
    ctx.check(isinstance(got, bytes) and got == want, "aggregate", "value", case,
              f"Aggregate = {got.hex() if isinstance(got, bytes) else got!r}, group sum encodes as {want.hex()}")
    # the same signatures handed over in other iterable forms: a form the function does not support may be refused
    # (TypeError / ValidationError), but whatever is RETURNED must be the aggregate
    import collections
    from eth_utils import ValidationError
    forms = {"tuple": lambda: tuple(sigs), "iterator": lambda: iter(sigs), "generator": lambda: (x for x in sigs),
             "deque": lambda: collections.deque(sigs), "reversed_twice": lambda: reversed(list(reversed(sigs)))}
    for nm, mk in forms.items():
        try:
            g2_ = S.Aggregate(mk())
        except (TypeError, ValidationError):
            ctx.label(f"aggregate:form_refused:{nm}")
            continue
        ctx.check(isinstance(g2_, bytes) and g2_ == want, "aggregate", f"value_for_{nm}", case,
                  f"Aggregate of the same signatures given as {nm} = {g2_.hex() if isinstance(g2_, bytes) else g2_!r}, "
                  f"group sum encodes as {want.hex()}")
        ctx.label(f"aggregate:form:{nm}")
    if "expect" in case:
        if want != unhx(case["expect"]):
            raise HarnessError("model disagrees with a published aggregate")
        ctx.label("anchor:eth_agg")
    if len(sigs) >= 2:
        ctx.label("aggregate:n>=2")
        ctx.nontrivial(("a", suite, case["sigs"]))
    if len(sigs) >= 7:
        ctx.label("aggregate:n>=7")
    if bin(len(sigs)).count("1") >= 3:
        ctx.label("aggregate:n_with_three_one_bits")
    if any(not B.g2_in_subgroup(p) for p in pts):
        ctx.label("aggregate:non_subgroup")
    acc, hit = None, False
    for p in pts[:-1]:
        acc = B.g2_add(acc, p)
        hit = hit or acc is None
    if hit:
        ctx.label("aggregate:prefix_sums_to_identity")
    if len(pts) == 1 or (len(pts) > 1 and all(p is None for p in pts[1:])):
        ctx.label("aggregate:single_point_reencoded")
    tot = blssig.aggregate_points(pts)
    if tot is not None and tot[1][1] == 0:
        ctx.label("aggregate:result_y_im=0")
    ctx.sample(case, "aggregate")


ORACLES = {"sign": o_sign, "pop_prove": o_pop, "aggregate": o_aggregate, "cross": o_cross}


def s_sign(big):
    base = st.fixed_dictionaries({"suite": sc.s_suite(), "sk": sc.s_sk(), "msg": s_msg(300, big=big).map(hx)})

    def own_pk_prefix(t):
        d, k = t
        if k == 0:
            return d
        pk = blssig.sk_to_pk(d["sk"])
        m = unhx(d["msg"])
        d = dict(d)
        d["msg"] = hx([pk + m[:40], pk, pk + pk, m[:8] + pk][k - 1])       # the signer's key bytes inside the message
        d["own_pk"] = True
        return d
    with_tag = st.tuples(st.tuples(base, st.sampled_from([0, 0, 0, 0, 1, 2, 3, 4])).map(own_pk_prefix),
                         st.one_of(st.none(), st.none(), st.none(), st.none(), st.sampled_from(sc.APP_TAGS).map(hx)))
    tagged = with_tag.map(lambda t: t[0] if t[1] is None else dict(t[0], tag=t[1]))
    return st.tuples(tagged, st.integers(0, 5)).map(lambda t: dict(t[0], subclassed=True) if t[1] == 0 else t[0])


def s_aggregate():
    """2..5 entries: model signatures by small distinct keys on a few messages, sometimes an
    on-curve non-subgroup encoding."""
    def build(t):
        suite, entries = t
        sigs = []
        for kind, a, b in entries:
            if kind == 0:
                sigs.append(blssig.sign(suite, a, bytes([b % 7])))
            elif kind == 3:
                sigs.append(B.signature_bytes(None))                       # the identity as a list member
            elif kind == 4 and sigs:
                pt = B.signature_point(sigs[-1 - b % len(sigs)])           # the inverse of an earlier entry:
                sigs.append(B.signature_bytes(B.g2_mul(pt, -1)))           # a prefix of the list sums to O
            elif kind == 5 and len(sigs) >= 2:
                acc = blssig.aggregate_points([B.signature_point(x) for x in sigs])
                sigs.append(B.signature_bytes(B.g2_mul(acc, -1)))          # minus the running sum
            elif kind == 6:
                # an on-curve point whose y is purely real or purely imaginary (sign taken from y_re)
                zc, c = None, 1 + (7 * a + 3 * b) % 40
                while zc is None:
                    zc, c = bc.g2_zero_component(c), c + 1
                pt = zc[0] if b % 2 else B.g2_mul(zc[0], -1)
                sigs.append(B.signature_bytes(pt))
            else:
                sigs.append(B.signature_bytes(bc.seed_point("G2", a % 40) if kind == 1
                                              else bc.torsion_point("G2", a % 40)))
        return {"suite": suite, "sigs": [hx(s) for s in sigs]}
    entry = st.tuples(st.sampled_from([0, 0, 0, 0, 1, 2, 3, 4, 4, 5, 6]), st.integers(1, 12), st.integers(0, 6))
    # every list length 1..24 (the summation order - left fold, pairwise tree, chunks - must not matter)
    sizes = st.one_of(st.integers(1, 6), st.integers(7, 24))
    return st.tuples(sc.s_suite(), sizes.flatmap(lambda k: st.lists(entry, min_size=k, max_size=k))).map(build)


def _anchor_cases():
    out = []
    for (i, j), sig in sorted(vectors.ETH_SIGS.items()):
        out.append({"suite": "pop", "sk": vectors.ETH_SKS[i], "msg": hx(vectors.ETH_MSGS[j]),
                    "expect_sig": hx(sig), "expect_pk": hx(vectors.ETH_PKS[i])})
    return out


def t_sign(ctx, shard, nshards, n):
    ex = _anchor_cases()
    for suite in sc.SUITES:
        for sk in sc.BOUNDARY_SKS:
            ex.append({"suite": suite, "sk": sk, "msg": ""})
            ex.append({"suite": suite, "sk": sk, "msg": hx(b"\xa5" * 64)})
        ex.append({"suite": suite, "sk": 7, "msg": hx(blssig.sk_to_pk(7) + b"tail"), "own_pk": True})
        ex.append({"suite": suite, "sk": 9, "msg": hx(b"derived"), "tag": hx(sc.APP_TAGS[0])})
        ex.append({"suite": suite, "sk": 11, "msg": hx(b"subclassed"), "subclassed": True})
        ex.append({"suite": suite, "sk": R - 1, "msg": hx(blssig.sk_to_pk(R - 1)), "own_pk": True})
    drive(ctx, f"sign{shard}", s_sign(ctx.tier == "thorough"), lambda c: o_sign(ctx, c), n, ex[shard::nshards],
          shrink=False)


def t_pop(ctx, shard, nshards, n):
    ex = [{"sk": k} for k in sc.BOUNDARY_SKS + vectors.ETH_SKS]
    drive(ctx, f"pop{shard}", sc.s_sk().map(lambda k: {"sk": k}), lambda c: o_pop(ctx, c), n,
          ex[shard::nshards], shrink=False)


def t_flags(ctx):
    """Sign / PopProve / Aggregate values in interpreters started with -O (asserts stripped) and with -bb (comparing
    bytes with str raises): the mandated byte strings do not depend on how the interpreter was started."""
    jobs = [{"sub": "sign", "case": {"suite": su, "sk": 1000 + 7 * i, "msg": hx(b"interpreter flags %d" % i)}}
            for i, su in enumerate(sc.SUITES)]
    jobs += [{"sub": "sign", "case": {"suite": "basic", "sk": R - 1, "msg": ""}},
             {"sub": "pop_prove", "case": {"sk": 4242}},
             {"sub": "aggregate", "case": {"suite": "pop", "sigs": [hx(blssig.sign("pop", 5 + j, b"m")) for j in range(3)]}}]
    for flag in ("-O", "-bb"):
        run_cases_optimized(ctx, "C09", jobs, flag=flag)


def t_cross(ctx, shard, n):
    strat = st.fixed_dictionaries({"sk": sc.s_sk(), "msg": s_msg(80).map(hx),
                                   "order": st.permutations([0, 1, 2, 3])})
    ex = [{"sk": 5, "msg": "", "order": [0, 2, 1, 3]}, {"sk": R - 1, "msg": hx(b"m"), "order": [3, 2, 1, 0]}]
    drive(ctx, f"cross{shard}", strat, lambda c: o_cross(ctx, c), n, ex if shard == 0 else (), shrink=False)


def t_aggregate(ctx, shard, nshards, n):
    ex = []
    for j, agg in sorted(vectors.ETH_AGGS.items()):
        ex.append({"suite": "pop", "sigs": [hx(vectors.ETH_SIGS[(i, j)]) for i in range(3)], "expect": hx(agg)})
    ex.append({"suite": "basic", "sigs": [hx(B.signature_bytes(None))]})
    seen = {"y_im=0": 0, "y_re=0": 0}
    for c in range(1, 60):
        zc = bc.g2_zero_component(c)
        if zc is not None and seen[zc[1]] < 2:            # two points of each kind, each with both signs
            seen[zc[1]] += 1
            for pt in (zc[0], B.g2_mul(zc[0], -1)):
                ex.append({"suite": "aug", "sigs": [hx(B.signature_bytes(pt))]})
                ex.append({"suite": "pop", "sigs": [hx(B.signature_bytes(pt)), hx(B.signature_bytes(None))]})
    ex.append({"suite": "basic", "sigs": [hx(B.signature_bytes(B.G2)), hx(B.signature_bytes(B.g2_mul(B.G2, -1)))]})
    for k in range(1, 33):                                   # honest signatures of k signers, every k up to 32
        su = sc.SUITES[k % 3]
        ex.append({"suite": su, "sigs": [hx(blssig.sign(su, 100 + j, b"every list length")) for j in range(k)]})
    drive(ctx, f"agg{shard}", s_aggregate(), lambda c: o_aggregate(ctx, c), n, ex[shard::nshards], shrink=False)


def tasks(tier):
    selfcheck()
    q = tier == "quick"
    out = []
    ns = 10
    for s in range(ns):
        out.append(Task(f"sign-{s}", "t_sign", shard=s, nshards=ns, n=90 if q else 1500))
    out.append(Task("flags", "t_flags"))
    for s in range(3):
        out.append(Task(f"cross-{s}", "t_cross", shard=s, n=8 if q else 250))
        out.append(Task(f"pop-{s}", "t_pop", shard=s, nshards=3, n=60 if q else 1200))
        out.append(Task(f"agg-{s}", "t_aggregate", shard=s, nshards=3, n=60 if q else 1200))
    return out
