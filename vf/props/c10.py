"""C10 - hash_to_curve follows RFC 9380 and always lands in the prime-order subgroup."""
import hashlib

from hypothesis import strategies as st

from vf.harness import HarnessError, Task, drive, hx, unhx
from vf.model import bls12381 as B
from vf.model import blssig, h2c
from vf.model.curves import BLS
from vf.props import _bls_common as bc
from vf.props import _fields_common as fc
from vf.strategies import msg as s_msg
from vf.strategies import sized_binary, uniform_int

P, R = B.P, B.R
RULE = ("map_to_curve_G1/G2 (and optimized_swu_G1/G2, iso_map_G1/G2) on Hypothesis-generated field elements "
        "u - {0, 1, -1, 2, (p-1)/2, (p+1)/2}, the two non-zero roots of Z^2u^4+Zu^2 in Fp, the 16 elements of Fp whose SWU image lies in the rational kernel of the 11-isogeny (the map must give the identity), every zero/parity "
        "pattern of (re, im) in Fp2, uniform - compared with the RFC 9380 straight-line simplified SWU "
        "(real inversions and square roots) followed by the isogeny as an affine rational map; "
        "sgn0(y') = sgn0(u) on the isogenous curve; hash_to_G1/G2 on generated (message, DST <= 255 bytes, "
        "hash function from hashlib; one case in six has a message searched for so that the expand_message_xmd blocks b_0 and b_i start / end with equal or zero bytes) compared with the model pipeline and checked on-curve and r*P = O. "
        "Non-trivial = a map case on the non-square (x2) branch, with an exceptional u or a u with a zero "
        "coordinate, or a pipeline case with DST length in {0, 255}, a non-SHA-256 hash or a message >= 56 "
        "bytes; distinct by input digest")
ASSUMPTIONS = ["RFC 9380 model vf/model/h2c.py, anchored by the RFC J.9.1/J.10.1 vectors; isogeny coefficients "
               "and A', B', Z are frozen literals (vf/model/isoconst.py) validated by those vectors and by "
               "the homomorphism self-checks", "hashlib digests are correct (shared by model and library)"]
ENGINE = "hypothesis"
TECHNIQUE = ("differential property-based testing (Hypothesis) against a straight-line RFC 9380 model anchored by the RFC vectors")
_REQ = ["map:G1:branch=x1", "map:G1:branch=x2", "map:G2:branch=x1", "map:G2:branch=x2", "map:G1:exceptional", "map:G1:image=identity",
        "map:G2:exceptional", "map:G2:u_re=0", "map:G2:u_im=0", "map:G2:fq_object_coefficients", "map:G1:sgn0(u)=1", "map:G2:sgn0(u)=1",
        "h2c:G1:dst_len=255", "h2c:G2:dst_len=255", "h2c:G1:dst_len=0", "h2c:G2:dst_len=0",
        "h2c:G2:hash=sha512", "h2c:G1:hash=sha512"] + ["h2c:xmd_blocks:" + k for k in h2c.BLOCK_KINDS]
REQUIRED_LABELS = {"quick": _REQ, "thorough": _REQ}
HASHES = ("sha256", "sha512", "sha384", "sha224", "sha3_256", "sha3_512", "blake2b", "blake2s", "sha1", "md5")


def selfcheck():
    h2c.selfcheck()
    if h2c.exceptional_us("G2"):
        raise HarnessError("model: G2 unexpectedly has non-zero exceptional u")


def _lib_el(g, u, fq_coeffs=False):
    m = bc.OB()
    if g == "G1":
        return m.FQ(u)
    return m.FQ2([m.FQ(c) for c in u]) if fq_coeffs else m.FQ2(list(u))


def o_map(ctx, case):
    import py_ecc.bls.hash_to_curve as lh
    import py_ecc.optimized_bls12_381 as ob
    g = case["g"]
    u = bc.unjel(case["u"])
    sub = "map_" + g
    ctx.begin(sub, case)
    S = h2c.suite(g)
    F = S.F
    (xp, yp), info = S.sswu(u)
    want = S.iso_map((xp, yp))
    lu = _lib_el(g, u, bool(case.get("fq_coeffs")))
    if case.get("fq_coeffs") and g == "G2":
        ctx.label("map:G2:fq_object_coefficients")
    swu = ob.optimized_swu_G1 if g == "G1" else ob.optimized_swu_G2
    iso = ob.iso_map_G1 if g == "G1" else ob.iso_map_G2
    mp = lh.map_to_curve_G1 if g == "G1" else lh.map_to_curve_G2
    # 1. the SWU stage on the isogenous curve
    x, y, z = swu(lu)
    xv, yv, zv = fc.val(x), fc.val(y), fc.val(z)
    ctx.check(not F.is_zero(zv), sub, "swu_z_zero", case, "optimized_swu returned z = 0")
    ax, ay = F.div(xv, zv), F.div(yv, zv)
    ctx.check((ax, ay) == (xp, yp), sub, "swu_point", case,
              f"optimized_swu gives ({ax}, {ay}) on E', RFC 9380 6.6.2 gives ({xp}, {yp}) "
              f"[branch {info['branch']}, exceptional={info['exceptional']}]")
    ctx.check(h2c.sgn0(ay) == h2c.sgn0(u), sub, "sgn0", case, "sgn0(y') != sgn0(u)")
    # 2. isogeny on that output, 3. the composed public function
    for name, out in (("iso_map", iso(x, y, z)), ("map_to_curve", mp(lu))):
        ctx.check(bc.OB().well_formed(g, out), sub, f"{name}:malformed", case, f"{name} returned {out!r}")
        got = bc.back(g, out)
        ctx.check(got == want, sub, f"{name}:value", case, f"{name} = {got}, model = {want}")
        if got is not None:
            ctx.check(BLS.on_curve(g, got), sub, f"{name}:off_curve", case, "image not on the curve")
    ctx.label(f"map:{g}:branch={info['branch']}")
    nt_ = info["branch"] == "x2"
    if info["exceptional"]:
        ctx.label(f"map:{g}:exceptional")
        nt_ = True
    if g == "G2":
        if u[0] % P == 0:
            ctx.label("map:G2:u_re=0"); nt_ = True
        if u[1] % P == 0:
            ctx.label("map:G2:u_im=0"); nt_ = True
    ctx.label(f"map:{g}:sgn0(u)={h2c.sgn0(u)}")
    if want is None:
        ctx.label(f"map:{g}:image=identity")
    if nt_:
        ctx.nontrivial(("m", g, case["u"]))
    ctx.sample(case, f"map:{g}:{info['branch']}:{'exc' if info['exceptional'] else 'gen'}")


def o_h2c(ctx, case):
    import py_ecc.bls.hash_to_curve as lh
    g = case["g"]
    msg, dst, hname = unhx(case["msg"]), unhx(case["dst"]), case.get("hash", "sha256")
    sub = "h2c_" + g
    ctx.begin(sub, case)
    want = h2c.hash_to_curve(g, msg, dst, hname)
    if not (BLS.on_curve(g, want) and BLS.mul(g, want, R) is None):
        raise HarnessError("model hash_to_curve left the subgroup")
    fn = lh.hash_to_G1 if g == "G1" else lh.hash_to_G2
    out = fn(msg, dst, getattr(hashlib, hname))
    ctx.check(bc.OB().well_formed(g, out), sub, "malformed", case, f"returned {out!r}")
    got = bc.back(g, out)
    ctx.check(got == want, sub, "value", case, f"hash_to_{g} = {got}, RFC 9380 model = {want}")
    import py_ecc.bls.g2_primitives as g2p
    ctx.check(g2p.subgroup_check(out) is True, sub, "not_in_subgroup", case, "result fails subgroup_check")
    nt_ = False
    if len(dst) in (0, 255):
        ctx.label(f"h2c:{g}:dst_len={len(dst)}"); nt_ = True
    if hname != "sha256":
        nt_ = True
    ctx.label(f"h2c:{g}:hash={hname}")
    if len(msg) >= 56:
        ctx.label(f"h2c:{g}:msg>=56"); nt_ = True
    if case.get("blocks"):
        ctx.label(f"h2c:xmd_blocks:{case['blocks']}"); nt_ = True
    if nt_:
        ctx.nontrivial(("h", g, case["msg"], case["dst"], hname))
    ctx.sample(case, f"h2c:{g}:{hname}")


ORACLES = {"map_G1": o_map, "map_G2": o_map, "h2c_G1": o_h2c, "h2c_G2": o_h2c}

# ---- generators -----------------------------------------------------------------------------------
SPECIAL = (0, 1, P - 1, 2, P - 2, (P - 1) // 2, (P + 1) // 2, 3, 11)


def s_u(g):
    if g == "G1":
        exc = h2c.exceptional_us("G1") + h2c.iso_kernel_us("G1")
        return st.one_of(st.sampled_from(SPECIAL + tuple(exc)), uniform_int(0, P - 1), uniform_int(0, P - 1),
                         st.integers(0, 1 << 16)).map(lambda u: {"g": "G1", "u": u})
    comp = st.one_of(st.sampled_from(SPECIAL), st.just(0), uniform_int(0, P - 1), uniform_int(0, P - 1))
    return st.tuples(comp, comp, st.sampled_from([False, False, True])).map(
        lambda t: {"g": "G2", "u": [t[0], t[1]], "fq_coeffs": t[2]})


def s_h2c(g, big):
    dst = st.one_of(st.sampled_from([b"", b"Q", b"QUUX-V01-CS02-with-BLS12381G2_XMD:SHA-256_SSWU_RO_"] +
                                    list(blssig.DST.values()) + [blssig.POP_TAG]),
                    sized_binary((0, 1, 16, 43, 254, 255), 255))
    plain = st.fixed_dictionaries({
        "g": st.just(g), "msg": s_msg(300, big=big).map(hx), "dst": dst.map(hx),
        "hash": st.one_of(st.just("sha256"), st.just("sha256"), st.sampled_from(HASHES)),
    })

    def structured(t):
        # a message for which the blocks of expand_message_xmd stand in a byte relation (b_0 and a b_i that is
        # XORed with it both start / end with a zero byte, or with the same byte): found by search in the model
        c, kind = t
        n = 128 if g == "G1" else 256
        m = h2c.search_blocks(unhx(c["msg"])[:40], unhx(c["dst"]), n, c["hash"], kind)
        return dict(c, msg=hx(m), blocks=kind)
    return st.one_of(plain, plain, plain, plain, plain,
                     st.tuples(plain, st.sampled_from(h2c.BLOCK_KINDS)).map(structured))


def _u_examples(g):
    if g == "G1":
        return [{"g": g, "u": u} for u in SPECIAL + tuple(h2c.exceptional_us("G1")) + tuple(h2c.iso_kernel_us("G1"))]
    vals = (0, 1, P - 1, 2, (P - 1) // 2, (P + 1) // 2)
    return [{"g": g, "u": [a, b], "fq_coeffs": fq} for a in vals for b in vals for fq in (False, True)]


def t_map(ctx, g, shard, n):
    drive(ctx, f"map{g}{shard}", s_u(g), lambda c: o_map(ctx, c), n, _u_examples(g) if shard == 0 else ())


def t_h2c(ctx, g, shard, n):
    ex = []
    if shard == 0:
        d = h2c.H2C_DST_G1 if g == "G1" else h2c.H2C_DST_G2
        vec = h2c.H2C_G1_VECTORS if g == "G1" else h2c.H2C_G2_VECTORS
        ex = [{"g": g, "msg": hx(m), "dst": hx(d), "hash": "sha256"} for m, _, _ in vec]
        ex += [{"g": g, "msg": "", "dst": "", "hash": "sha256"},
               {"g": g, "msg": "00", "dst": hx(b"\xff" * 255), "hash": "sha512"},
               {"g": g, "msg": hx(b"a" * 64), "dst": hx(b"d" * 255), "hash": "sha256"},
               {"g": g, "msg": hx(b"abc"), "dst": "", "hash": "sha512"}]
        n_ = 128 if g == "G1" else 256
        ex += [{"g": g, "msg": hx(h2c.search_blocks(b"pinned", d, n_, "sha256", k)), "dst": hx(d), "hash": "sha256",
                "blocks": k} for k in h2c.BLOCK_KINDS]
    drive(ctx, f"h2c{g}{shard}", s_h2c(g, ctx.tier == "thorough"), lambda c: o_h2c(ctx, c), n, ex)


def tasks(tier):
    selfcheck()
    q = tier == "quick"
    out = []
    for s in range(4):
        out.append(Task(f"map-G1-{s}", "t_map", g="G1", shard=s, n=500 if q else 20000))
        out.append(Task(f"map-G2-{s}", "t_map", g="G2", shard=s, n=110 if q else 5000))
        out.append(Task(f"h2c-G1-{s}", "t_h2c", g="G1", shard=s, n=200 if q else 8000))
        out.append(Task(f"h2c-G2-{s}", "t_h2c", g="G2", shard=s, n=45 if q else 2000))
    return out
