"""C11 - point (de)serialisation is a canonical bijection in the ZCash format."""
import itertools

from hypothesis import strategies as st

from vf.harness import HarnessError, Task, drive, hx
from vf.model import bls12381 as B
from vf.model.curves import BLS
from vf.props import _bls_common as bc
from vf.strategies import uniform_int

P = B.P
RULE = ("points -> words -> points: Hypothesis-constructed points of E(Fp) and E'(Fp2) (kG, random "
        "curve points, cofactor torsion, small-order points incl. (0,+-2), G2 points with purely real / "
        "purely imaginary y, G1 points with y next to (p-1)/2, G2 points with y_im (or y_re when y_im = 0) exactly (p-1)/2 and (p+1)/2 built with an Fp2 cube root, infinity in five representations) under "
        "random projective scalings: compress == model encoder, decompress(compress(P)) == P, byte "
        "helpers give 48/96 bytes; words -> points -> words: the full grid 8 flag combinations x "
        "x in {0,1,2,p-1,p,p+1,2^381-1,on-curve,off-curve,x+p} (G2: x second-word variants) enumerated "
        "completely plus Hypothesis mutations of valid words and random 384-bit words: library accepts "
        "iff the model decoder accepts, same point, compress(decompress(w)) == w, refusal is ValueError. "
        "Non-trivial = an accepted word, a refused word one mutation away from an accepted one, or a "
        "round trip of a non-subgroup / zero-component / scaled point; distinct by input digest")
ASSUMPTIONS = ["the ZCash format as written in vf/model/bls12381.py (sign = lexicographically larger y, "
               "Fp2 ordered by the i-coefficient first); anchored by the published generator encodings and "
               "nine Ethereum signatures / three public keys",
               "words are 384-bit non-negative integers (other lengths are C04's domain)"]
ENGINE = "hypothesis + exhaustive flag/value grids"
TECHNIQUE = ("round-trip and differential property-based testing (Hypothesis) + exhaustive flag/value grids + atheris/libFuzzer campaigns (thorough) against a model of the ZCash format")
_REQ = ["rt:G1:non_subgroup", "rt:G2:non_subgroup", "rt:G2:y_im=0", "rt:G2:y_re=0", "rt:G1:y_at_boundary", "rt:G2:y_at_boundary",
        "rt:G2:fq_object_coefficients", "rt:G1:inf", "rt:G2:inf", "rt:G1:scaled", "rt:G2:scaled", "word:G1:accept", "word:G2:accept",
        "word:G1:reject:x>=p", "word:G2:reject:x1>=p", "word:G2:reject:x0>=p",
        "word:G2:reject:flags_in_second_word", "word:G1:reject:not_on_curve", "word:G2:reject:not_on_curve",
        "word:G1:reject:c_flag", "word:G1:reject:inf_a_flag", "word:G1:reject:inf_x_nonzero",
        "grid:G1", "grid:G2"]
REQUIRED_LABELS = {"quick": _REQ, "thorough": _REQ}


def selfcheck():
    B.selfcheck()


def _pc():
    import py_ecc.bls.point_compression as pc
    return pc


def _g2p():
    import py_ecc.bls.g2_primitives as g
    return g


# ---- points -> words -> points ------------------------------------------------------------------
def o_roundtrip(ctx, case):
    pc, g2p = _pc(), _g2p()
    g = case["g"]
    pt = bc.unjp(case["pt"])
    scale = bc.unjel(case.get("scale", 1 if g == "G1" else [1, 0]))
    sub = "rt_" + g
    ctx.begin(sub, case)
    lp = bc.lib_point(g, pt, scale=scale, inf_rep=case.get("inf_rep", 0), fq_coeffs=bool(case.get("fq_coeffs")))
    if case.get("fq_coeffs") and g == "G2" and pt is not None:
        ctx.label("rt:G2:fq_object_coefficients")
    key = {"curve": g}
    if g == "G1" and pt is not None:
        key.update({"x": pt[0], "b_flag": 0})
    if g == "G1":
        want = B.compress_g1(pt)
        z = pc.compress_G1(lp)
        ctx.check(type(z) is int and z == want, sub, "compress", case,
                  f"compress_G1 = {z!r}, ZCash encoding is {want}", key)
        try:
            dp = pc.decompress_G1(z)
        except ValueError as e:
            ctx.violation(sub, "roundtrip_refused", case,
                          f"decompress_G1(compress_G1(P)) raised ValueError({e})", key)
            dp = None
        else:
            ctx.check(bc.back(g, dp) == pt, sub, "roundtrip", case,
                      f"decompress_G1(compress_G1(P)) = {bc.back(g, dp)} != P", key)
        by = g2p.G1_to_pubkey(lp)
        ctx.check(isinstance(by, bytes) and len(by) == 48 and by == B.pubkey_bytes(pt), sub, "bytes", case,
                  f"G1_to_pubkey gives {by!r}", key)
        if dp is not None:
            ctx.check(bc.back(g, g2p.pubkey_to_G1(by)) == pt, sub, "bytes_roundtrip", case,
                      "pubkey_to_G1(G1_to_pubkey(P)) != P", key)
    else:
        want = B.compress_g2(pt)
        z = pc.compress_G2(lp)
        ok = isinstance(z, tuple) and len(z) == 2 and all(type(v) is int for v in z) and tuple(z) == want
        ctx.check(ok, sub, "compress", case, f"compress_G2 = {z!r}, ZCash encoding is {want}", key)
        try:
            dp = pc.decompress_G2(z)
        except ValueError as e:
            ctx.violation(sub, "roundtrip_refused", case,
                          f"decompress_G2(compress_G2(P)) raised ValueError({e})", key)
            dp = None
        else:
            ctx.check(bc.back(g, dp) == pt, sub, "roundtrip", case,
                      f"decompress_G2(compress_G2(P)) = {bc.back(g, dp)} != P", key)
        by = g2p.G2_to_signature(lp)
        ctx.check(isinstance(by, bytes) and len(by) == 96 and by == B.signature_bytes(pt), sub, "bytes",
                  case, f"G2_to_signature gives {by!r}", key)
        if dp is not None:
            ctx.check(bc.back(g, g2p.signature_to_G2(by)) == pt, sub, "bytes_roundtrip", case,
                      "signature_to_G2(G2_to_signature(P)) != P", key)
    classes = bc.describe(g, pt)
    scaled = pt is not None and scale not in (1, (1, 0))
    for c in classes:
        ctx.label(f"rt:{g}:{c}")
    if scaled:
        ctx.label(f"rt:{g}:scaled")
    if scaled or any(c != "subgroup" for c in classes):
        ctx.nontrivial(("rt", g, case["pt"], case.get("scale"), case.get("inf_rep")))
    ctx.sample(case, f"rt:{g}:{case.get('kind')}")


# ---- words -> points -> words -----------------------------------------------------------------
def _near_valid(g, z):
    """Is the word one elementary mutation away from a word the model accepts?"""
    z1 = z[0] if g == "G2" else z
    cands = [z1 ^ B.C_BIT, z1 ^ B.B_BIT, z1 ^ B.A_BIT, z1 - P]
    for c in cands:
        if c < 0:
            continue
        try:
            if g == "G1":
                B.decompress_g1(c)
            else:
                B.decompress_g2(c, z[1])
            return True
        except B.Reject:
            pass
    if g == "G2":
        for c in (z[1] - P, z[1] & B.MASK381):
            if c < 0 or c == z[1]:
                continue
            try:
                B.decompress_g2(z1, c)
                return True
            except B.Reject:
                pass
    return False


def o_word(ctx, case):
    pc, g2p = _pc(), _g2p()
    g = case["g"]
    sub = "word_" + g
    ctx.begin(sub, case)
    if g == "G1":
        z = int(case["z"], 16)
        word = z
        call = lambda: pc.decompress_G1(z)                                   # noqa: E731
        call_b = lambda: g2p.pubkey_to_G1(z.to_bytes(48, "big"))              # noqa: E731
        model = lambda: B.decompress_g1(z)                                   # noqa: E731
        comp = pc.compress_G1
        key = {"curve": g, "x": z & B.MASK381, "b_flag": (z >> 382) & 1}
    else:
        z1, z2 = int(case["z1"], 16), int(case["z2"], 16)
        word = (z1, z2)
        call = lambda: pc.decompress_G2((z1, z2))                            # noqa: E731
        call_b = lambda: g2p.signature_to_G2(z1.to_bytes(48, "big") + z2.to_bytes(48, "big"))  # noqa: E731
        model = lambda: B.decompress_g2(z1, z2)                              # noqa: E731
        comp = pc.compress_G2
        key = {"curve": g}
    try:
        want, reason = model(), None
    except B.Reject as r:
        want, reason = "reject", r.reason
    for name, fn in (("decompress", call), ("bytes", call_b)):
        try:
            got = fn()
            raised = None
        except ValueError as e:
            got, raised = "reject", e
        # any other exception type escapes and is reported by the harness as exception:<Type>
        if want == "reject":
            ctx.check(got == "reject", sub, f"{name}:accepted_invalid", case,
                      f"{name} accepted a word the format refuses ({reason}); returned "
                      f"{bc.back(g, got) if got != 'reject' else None}", key)
        else:
            if got == "reject":
                ctx.violation(sub, f"{name}:refused_valid", case,
                              f"{name} refused the canonical encoding of {want}: ValueError({raised})", key)
                continue
            ctx.check(OBwell(g, got), sub, f"{name}:malformed_point", case, f"returned {got!r}", key)
            ctx.check(bc.back(g, got) == want, sub, f"{name}:wrong_point", case,
                      f"{name} gives {bc.back(g, got)}, the word encodes {want}", key)
            if got is not None and want is not None:
                ctx.check(BLS.on_curve(g, bc.back(g, got)), sub, f"{name}:off_curve", case, "result off curve", key)
            back_word = comp(got)
            back_word = tuple(back_word) if g == "G2" else back_word
            ctx.check(back_word == word, sub, f"{name}:not_canonical", case,
                      f"compress(decompress(w)) = {back_word} != w", key)
    flags = (word[0] if g == "G2" else word) >> 381
    if want == "reject":
        ctx.label(f"word:{g}:reject:{reason}")
        if _near_valid(g, word):
            ctx.label(f"word:{g}:reject:near_valid")
            ctx.nontrivial(("w", g, case.get("z"), case.get("z1"), case.get("z2")))
    else:
        ctx.label(f"word:{g}:accept")
        ctx.nontrivial(("w", g, case.get("z"), case.get("z1"), case.get("z2")))
    ctx.label(f"word:{g}:flags={flags:03b}")
    ctx.sample(case, f"word:{g}:{reason or 'accept'}")


def OBwell(g, pt):
    return bc.OB().well_formed(g, pt)


ORACLES = {"rt_G1": o_roundtrip, "rt_G2": o_roundtrip, "word_G1": o_word, "word_G2": o_word}


# ---- generators -----------------------------------------------------------------------------------
def _valid_words(g):
    """A few accepted words of each flavour (model-built), used as mutation bases and grid values."""
    pts = [BLS.G1 if g == "G1" else BLS.G2, bc.kg(g, 7), bc.seed_point(g, 3), bc.torsion_point(g, 5)]
    # a point whose x (G2: both components) admits x + p < 2^381
    k = 2
    lim = (1 << 381) - P
    while True:
        Q = bc.kg(g, k)
        xs = (Q[0],) if g == "G1" else Q[0]
        if all(v < lim for v in xs):
            pts.append(Q)
            break
        k += 1
    if g == "G2":
        pts.append(bc.g2_zero_component(next(c for c in range(1, 99) if bc.g2_zero_component(c)))[0])
    out = []
    for Q in pts:
        for pt in (Q, BLS.neg(g, Q)):
            out.append(B.compress_g1(pt) if g == "G1" else B.compress_g2(pt))
    out.append(B.compress_g1(None) if g == "G1" else B.compress_g2(None))     # the infinity word is a mutation base too
    # coordinates whose leading byte equals the leading byte of p (0x1a): just below the modulus, where a
    # byte-wise range pre-check is easy to get wrong by one
    lo = 0x1A << 376
    k = 0
    found = 0
    while found < 2:
        k += 1
        if g == "G1":
            Q = BLS.lift_x("G1", lo + k)
        else:
            Q = BLS.lift_x("G2", (lo + k, 3 + k)) if found == 0 else BLS.lift_x("G2", (5 + k, lo + k))
        if Q is not None:
            found += 1
            for pt in (Q, BLS.neg(g, Q)):
                out.append(B.compress_g1(pt) if g == "G1" else B.compress_g2(pt))
    return out


def _off_curve_x(g):
    x = 5
    while True:
        if g == "G1":
            if BLS.lift_x("G1", x) is None:
                return x
        elif BLS.lift_x("G2", (x, 1)) is None:
            return (x, 1)
        x += 1


def grid_g1():
    valid = _valid_words("G1")
    xs = {0, 1, 2, P - 1, P, P + 1, (1 << 381) - 1, _off_curve_x("G1")}
    for w in valid:
        x = w & B.MASK381
        xs.add(x)
        if x + P < (1 << 381):
            xs.add(x + P)
    for flags, x in itertools.product(range(8), sorted(xs)):
        yield {"g": "G1", "z": hex((flags << 381) | x)}


def grid_g2():
    valid = _valid_words("G2")
    oc = _off_curve_x("G2")
    pairs = {(0, 0), (0, 1), (1, 0), (P - 1, P - 1), (P, 0), (0, P), (P + 1, 1), ((1 << 381) - 1, 0),
             (0, (1 << 381) - 1), (oc[1], oc[0])}
    for k in range(1, 8):
        pairs.add((0, k << 381))              # flag bits only in the second word, zero coordinate bits
        pairs.add((1, k << 381))
    for (z1, z2) in valid:
        x1 = z1 & B.MASK381
        pairs.add((x1, z2))
        for d1, d2 in ((P, 0), (0, P), (P, P)):
            if x1 + d1 < (1 << 381):
                pairs.add((x1 + d1, z2 + d2))
        for bit in (381, 382, 383):
            pairs.add((x1, z2 | (1 << bit)))
        pairs.add((x1, 0))
        pairs.add((0, z2))
    for flags, (x1, z2) in itertools.product(range(8), sorted(pairs)):
        if z2 >= (1 << 384):
            continue
        yield {"g": "G2", "z1": hex((flags << 381) | x1), "z2": hex(z2)}


def s_word(g):
    valid = _valid_words(g)
    bit = st.integers(0, 383)

    def w1(z, muts):
        for kind, b in muts:
            if kind == 0:
                z ^= 1 << b
            elif kind == 1:
                z ^= (1 << 381) << (b % 3)
            elif kind == 2 and (z & B.MASK381) + P < (1 << 381):
                z += P
            elif kind == 3:
                z ^= B.A_BIT
        return z

    muts = st.lists(st.tuples(st.integers(0, 3), bit), min_size=0, max_size=3)
    if g == "G1":
        fresh = bc.point_desc("G1").map(lambda d: B.compress_g1(bc.unjp(d["pt"])))
        base = st.one_of(st.sampled_from(valid), fresh)
        return st.one_of(
            st.tuples(base, muts).map(lambda t: w1(*t)),
            uniform_int(0, (1 << 384) - 1),
            st.tuples(st.integers(0, 7), uniform_int(0, P + 50)).map(lambda t: (t[0] << 381) | t[1]),
            st.tuples(st.integers(4, 5), uniform_int(0, P - 1)).map(lambda t: (t[0] << 381) | t[1]),
        ).map(lambda z: {"g": "G1", "z": hex(z)})
    fresh = bc.point_desc("G2").map(lambda d: B.compress_g2(bc.unjp(d["pt"])))
    base = st.one_of(st.sampled_from(valid), fresh)

    def w2(zz, m1, m2, second):
        z1, z2 = zz
        z1 = w1(z1, m1)
        if second == 1:
            z2 = w1(z2, m2) & ((1 << 384) - 1)
        elif second == 2 and z2 + P < (1 << 384):
            z2 += P
        elif second == 3:
            z2 = 0
        return (z1, z2)

    return st.one_of(
        st.tuples(base, muts, muts, st.sampled_from([0, 0, 0, 1, 2, 3])).map(lambda t: w2(*t)),
        st.tuples(uniform_int(0, (1 << 384) - 1), uniform_int(0, (1 << 384) - 1)),
        st.tuples(st.integers(4, 5).flatmap(lambda f: uniform_int(0, P - 1).map(lambda x: (f << 381) | x)),
                  uniform_int(0, P - 1)),
    ).map(lambda t: {"g": "G2", "z1": hex(t[0]), "z2": hex(t[1])})


def s_roundtrip(g):
    def attach(t):
        d, sc, ir, fq = t
        d = dict(d)
        d["scale"] = sc
        d["inf_rep"] = ir
        d["fq_coeffs"] = fq
        return d
    return st.tuples(bc.point_desc(g), bc.scale_for(g), st.integers(0, 4), st.sampled_from([False, False, True])).map(attach)


def t_grid(ctx, g):
    n = 0
    for case in (grid_g1() if g == "G1" else grid_g2()):
        o_word(ctx, case)
        n += 1
    ctx.label(f"grid:{g}", n)
    ctx.subspace(f"{g} word grid: 8 flag combinations x special/valid/invalid coordinate values", n)


def t_words(ctx, g, shard, n):
    drive(ctx, f"word{g}{shard}", s_word(g), lambda c: o_word(ctx, c), n)


def t_roundtrip(ctx, g, shard, n):
    ex = []
    if shard == 0:
        gen = BLS.G1 if g == "G1" else BLS.G2
        one = 1 if g == "G1" else [1, 0]
        ex = [{"g": g, "kind": "G", "pt": bc.jp(gen), "scale": one, "inf_rep": 0},
              {"g": g, "kind": "G", "pt": bc.jp(gen), "scale": one, "inf_rep": 0, "fq_coeffs": True},
              {"g": g, "kind": "5G", "pt": bc.jp(bc.kg(g, 5)), "scale": one, "inf_rep": 0, "fq_coeffs": True}]
        ex += [{"g": g, "kind": "inf", "pt": None, "scale": one, "inf_rep": i} for i in range(5)]
        if g == "G1":
            ex += [{"g": g, "kind": "x=0", "pt": [0, 2], "scale": 1, "inf_rep": 0},
                   {"g": g, "kind": "x=0", "pt": [0, P - 2], "scale": 7, "inf_rep": 0}]
    drive(ctx, f"rt{g}{shard}", s_roundtrip(g), lambda c: o_roundtrip(ctx, c), n, ex)


def t_fuzz(ctx, worker, runs, empty):
    """atheris campaign over the byte-level decoders with this module's oracle inside the target."""
    from vf.harness import run_fuzz_campaign
    run_fuzz_campaign(ctx, "c11", runs, ctx.seed_for("fuzz", worker), empty_corpus=empty)


def tasks(tier):
    selfcheck()
    q = tier == "quick"
    out = [Task("grid-G1", "t_grid", g="G1"), Task("grid-G2", "t_grid", g="G2")]
    shards = 7
    for s in range(shards):
        out.append(Task(f"words-G1-{s}", "t_words", g="G1", shard=s, n=600 if q else 20000))
        out.append(Task(f"words-G2-{s}", "t_words", g="G2", shard=s, n=250 if q else 8000))
        out.append(Task(f"rt-G1-{s}", "t_roundtrip", g="G1", shard=s, n=250 if q else 8000))
        out.append(Task(f"rt-G2-{s}", "t_roundtrip", g="G2", shard=s, n=120 if q else 4000))
    if not q:
        for w in range(10):
            out.append(Task(f"fuzz-{w}", "t_fuzz", worker=w, runs=20000, empty=w >= 8))
    return out
