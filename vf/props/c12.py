"""C12 - optimized pairings equal reference pairings; split and fast final exponentiation exact."""
from hypothesis import strategies as st

from vf.harness import HarnessError, Task, drive
from vf.model import curves as mc
from vf.props import _fields_common as fc
from vf.props import _pairing_common as pc
from vf.props._curve_common import mod
from vf.strategies import uniform_int

RULE = ("(diff) for both curves, scalars a, b in [0, r] (boundary, uniform, 0 and r = the identity in several z = 0 representatives) and random projective scalings of the "
        "optimized inputs: coefficient list of optimized pairing(bG2, aG1) == that of the reference pairing; "
        "(split) for both optimized modules and lists of 1..6 scalar pairs: final_exponentiate(prod pairing(Q_i, "
        "P_i, final_exponentiate=False)) == prod pairing(Q_i, P_i); (fexp) for FQ12 elements 0, 1, w, w^11, "
        "sparse (k of 12 coefficients), structured-support (low degree a + b w, the subfields Fp / Fp2 / Fp6, one twisted pair, top half), uniform and unitary / cyclotomic elements y^(p^6-1), y^((p^6-1)(p^2+1)) built by the model: optimized-BLS final_exponentiate(x) == x ** ((p^12-1)//r) and "
        "exp_by_p(x) == x ** p, every module's final_exponentiate == the model's plain power; (interleaved) the two optimized curves' exponentiation entry points called alternately in one process in a drawn order, each result compared with the plain power. Non-trivial = a "
        "differential case with a*b not in {0, 1, -1} mod r, a split case with >= 2 factors, an exponentiation "
        "case with x not in {0, 1}; distinct by input digest")
ASSUMPTIONS = ["reference pairings are the specification for the optimized ones (their algebraic laws are C05's)",
               "model extension-field power (vf/model/fields.py) for the plain exponentiation"]
ENGINE = "hypothesis (differential and metamorphic)"
TECHNIQUE = ("differential and metamorphic property-based testing (Hypothesis): optimized vs reference pairing, split vs product, fast vs plain exponentiation, curves interleaved in one process")
_REQ = ["interleaved:both_curves", "diff:identity_argument", "diff:bn128", "diff:bls12_381", "diff:scaled", "split:optimized_bn128", "split:optimized_bls12_381",
        "split:n>=2", "fexp:optimized_bls12_381", "fexp:exp_by_p", "fexp:x=0", "fexp:unitary", "fexp:sparse", "fexp:low_degree", "fexp:in_Fp2", "fexp:in_Fp6", "fexp:model_power",
        "fexp:bn128", "fexp:optimized_bn128", "fexp:bls12_381"]
REQUIRED_LABELS = {"quick": _REQ, "thorough": _REQ}


def o_diff(ctx, case):
    curve, a, b = case["curve"], case["a"], case["b"]
    ctx.begin("diff", case)
    C = mc.CURVES[curve]
    ref, opt = pc.REF_OF[curve], pc.OPT_OF[curve]
    P, Q = pc.kG(curve, "G1", a), pc.kG(curve, "G2", b)
    want = pc.pm(ref).pairing(pc.lib_pt(ref, "G2", Q), pc.lib_pt(ref, "G1", P))
    k = case.get("inf_rep", 0) % 3
    oQ = pc.lib_pt(opt, "G2", Q, scale=pc.unscale(case.get("sq")), inf_rep=INF_G2[k])
    oP = pc.lib_pt(opt, "G1", P, scale=pc.unscale(case.get("sp")), inf_rep=INF_G1[k])
    got = pc.pm(opt).pairing(oQ, oP)
    if P is None or Q is None:
        ctx.label("diff:identity_argument")
        raw = pc.pm(opt).pairing(oQ, oP, final_exponentiate=False)
        ctx.check(pc.coeffs(pc.pm(opt).final_exponentiate(raw)) == pc.coeffs(want), "diff", "raw_identity", case,
                  f"optimized {curve}: final_exponentiate(pairing(.., final_exponentiate=False)) with an identity "
                  f"argument differs from the reference pairing")
    ctx.check(type(got) is mod(opt).FQ12, "diff", "type", case, f"optimized pairing returned {type(got).__name__}")
    ctx.check(pc.coeffs(got) == pc.coeffs(want), "diff", "value", case,
              f"optimized {curve} pairing differs from the reference pairing for a={a}, b={b}")
    ctx.label(f"diff:{curve}")
    if case.get("sq") is not None or case.get("sp") is not None:
        ctx.label("diff:scaled")
    if (a * b) % C.r not in (0, 1, C.r - 1):
        ctx.nontrivial(("d", curve, a, b, case.get("sq"), case.get("sp")))
    ctx.sample(case, f"diff:{curve}")


INF_G1 = [(1, 1, 0), (0, 1, 0), (5, 7, 0)]
INF_G2 = [((1, 0), (1, 0), (0, 0)), ((0, 0), (1, 0), (0, 0)), ((5, 3), (7, 11), (0, 0))]


def o_split(ctx, case):
    name = case["module"]
    curve = pc.CURVE_OF[name]
    ctx.begin("split", case)
    M = pc.pm(name)
    acc_raw, acc_full = pc.one12(name), pc.one12(name)
    raws = []
    for a, b, sq, sp in case["pairs"]:
        Q = pc.lib_pt(name, "G2", pc.kG(curve, "G2", b), scale=pc.unscale(sq), inf_rep=INF_G2[(a + b) % 3])
        P = pc.lib_pt(name, "G1", pc.kG(curve, "G1", a), scale=pc.unscale(sp), inf_rep=INF_G1[(a + b) % 3])
        raws.append(M.pairing(Q, P, final_exponentiate=False))
        acc_raw = acc_raw * raws[-1]
        acc_full = acc_full * M.pairing(Q, P)
    got = M.final_exponentiate(acc_raw)
    ctx.check(pc.coeffs(got) == pc.coeffs(acc_full), "split", "value", case,
              f"{name}: final_exponentiate(prod of {len(case['pairs'])} raw Miller values) != prod of pairings")
    # the same product accumulated with `*=` starting from the first stored Miller value (how a caller folds a
    # list): the stored values must keep their values, and the result must be the same
    before = [pc.coeffs(m) for m in raws]
    prod = raws[0]
    for m in raws[1:]:
        prod *= m
    ctx.check([pc.coeffs(m) for m in raws] == before, "split", "operand_changed_by_augmented_multiply", case,
              f"{name}: a stored Miller value changed when a product was accumulated with *=")
    ctx.check(pc.coeffs(M.final_exponentiate(prod)) == pc.coeffs(acc_full), "split", "value_augmented", case,
              f"{name}: final_exponentiate of the *= product != prod of pairings")
    ctx.label(f"split:{name}")
    if len(case["pairs"]) >= 2:
        ctx.label("split:n>=2")
        ctx.nontrivial(("s", name, case["pairs"]))
    ctx.sample(case, f"split:{name}")


def o_fexp(ctx, case):
    name = case["module"]
    curve = pc.CURVE_OF[name]
    C = mc.CURVES[curve]
    x = tuple(case["x"])
    ctx.begin("fexp", case)
    M = pc.pm(name)
    FQ12 = mod(name).FQ12
    lx = FQ12(list(x))
    e = (C.p ** 12 - 1) // C.r
    got = M.final_exponentiate(lx)
    plain = lx ** e
    ctx.check(pc.coeffs(got) == pc.coeffs(plain), "fexp", "final_exponentiate", case,
              f"{name}.final_exponentiate(x) != x ** ((p^12-1)//r)")
    if case.get("model"):
        want = C.F12.pow(C.F12.el(x), e)
        ctx.check(tuple(pc.coeffs(got)) == want, "fexp", "final_exponentiate_vs_model", case,
                  f"{name}.final_exponentiate(x) differs from the model power")
        ctx.label("fexp:model_power")
    if name == "optimized_bls12_381":
        fp = M.exp_by_p(lx)
        ctx.check(pc.coeffs(fp) == pc.coeffs(lx ** C.p), "fexp", "exp_by_p", case, "exp_by_p(x) != x ** p")
        ctx.check(tuple(pc.coeffs(fp)) == C.F12.pow(C.F12.el(x), C.p), "fexp", "exp_by_p_vs_model", case,
                  "exp_by_p(x) differs from the model's x^p")
        ctx.label("fexp:exp_by_p")
    ctx.label(f"fexp:{name}")
    nz = sum(1 for c in x if c % C.p)
    if nz and C.F12.pow(C.F12.el(x), C.p ** 6 + 1) == C.F12.one:
        ctx.label("fexp:unitary")
    sup = [i for i, c in enumerate(x) if c % C.p]
    if nz >= 2 and max(sup) <= 5:
        ctx.label("fexp:low_degree")
    if nz >= 2 and all(i % 6 == 0 for i in sup):
        ctx.label("fexp:in_Fp2")
    elif nz >= 3 and all(i % 2 == 0 for i in sup):
        ctx.label("fexp:in_Fp6")
    if nz == 0:
        ctx.label("fexp:x=0")
    elif nz <= 3:
        ctx.label("fexp:sparse")
    if nz and x != (1,) + (0,) * 11:
        ctx.nontrivial(("f", name, case["x"]))
    ctx.sample(case, f"fexp:{name}")


def o_interleaved(ctx, case):
    """Both curves' exponentiation entry points used alternately inside one process, in a drawn
    order: each result must equal the plain power whatever ran before it (no table, cache or class
    attribute may be shared between the curves)."""
    ctx.begin("interleaved", case)
    seq = case["seq"]
    for pos, (name, x) in enumerate(seq):
        C = mc.CURVES[pc.CURVE_OF[name]]
        M = pc.pm(name)
        lx = mod(name).FQ12(list(x))
        got = M.final_exponentiate(lx)
        want = C.F12.pow(C.F12.el(tuple(x)), (C.p ** 12 - 1) // C.r) if case.get("model") else None
        plain = lx ** ((C.p ** 12 - 1) // C.r)
        ctx.check(pc.coeffs(got) == pc.coeffs(plain), "interleaved", f"final_exponentiate:{name}", case,
                  f"{name}.final_exponentiate at position {pos} of {[n for n, _ in seq]} != plain power")
        if want is not None:
            ctx.check(tuple(pc.coeffs(got)) == want, "interleaved", f"final_exponentiate_vs_model:{name}", case,
                      f"{name}.final_exponentiate at position {pos} differs from the model power")
        if hasattr(M, "exp_by_p"):
            ctx.check(pc.coeffs(M.exp_by_p(lx)) == pc.coeffs(lx ** C.p), "interleaved", f"exp_by_p:{name}", case,
                      f"{name}.exp_by_p at position {pos} of {[n for n, _ in seq]} != x ** p")
    ctx.label("interleaved:both_curves")
    ctx.nontrivial(("i", seq))
    ctx.sample({"seq": [[n, x[:3] + ["..."]] for n, x in seq]}, "interleaved")


ORACLES = {"diff": o_diff, "split": o_split, "fexp": o_fexp, "interleaved": o_interleaved}


def s_diff(curve):
    r = mc.CURVES[curve].r
    # a, b in [0, r]: 0 and r give the identity (any z = 0 representative in the optimized module)
    return st.fixed_dictionaries({"curve": st.just(curve), "a": pc.s_scalar(r), "b": pc.s_scalar(r),
                                  "inf_rep": st.integers(0, 2),
                                  "sq": pc.s_scale(curve, "G2", True), "sp": pc.s_scale(curve, "G1", True)})


def s_split(name):
    curve = pc.CURVE_OF[name]
    r = mc.CURVES[curve].r
    sc_ = st.one_of(st.integers(0, 50), uniform_int(1, r - 1), st.just(r))
    pair = st.tuples(sc_, sc_,
                     pc.s_scale(curve, "G2", True), pc.s_scale(curve, "G1", True)).map(list)
    return st.fixed_dictionaries({"module": st.just(name), "pairs": st.lists(pair, min_size=1, max_size=6)})


def s_x(p):
    coef = st.one_of(st.just(0), st.just(0), st.sampled_from([1, 2, p - 1]), uniform_int(0, p - 1))
    dense = st.lists(uniform_int(0, p - 1), min_size=12, max_size=12)
    sparse = st.lists(coef, min_size=12, max_size=12)
    # elements with a structured support: low degree (a + b w, degree <= 5: products that need no reduction),
    # subfields (Fp: index 0; Fp2: indices 0, 6; Fp6: even indices), a single twisted pair (k, k + 6), the top half
    nzc = st.one_of(st.sampled_from([1, 2, 3, p - 1]), uniform_int(1, p - 1))
    supports = [[0, 1], [0, 1, 2], [0, 1, 2, 3, 4, 5], [2, 3, 5], [0], [0, 6], [0, 2, 4, 6, 8, 10], [1, 7], [3, 9], [6, 7, 8, 9, 10, 11],
                [1], [5], [0, 11], [0, 1, 6, 7]]
    shaped = st.sampled_from(supports).flatmap(
        lambda sup: st.lists(nzc, min_size=len(sup), max_size=len(sup)).map(
            lambda vs: [dict(zip(sup, vs)).get(i, 0) for i in range(12)]))
    return st.one_of(dense, sparse, sparse, shaped, shaped)


def unitary(curve, y, cyclotomic):
    """y^(p^6-1) (norm 1 over Fp6; with cyclotomic also ^(p^2+1), i.e. an element of the cyclotomic subgroup
    that contains every pairing value) computed by the model: the inputs a 'skip the easy part' shortcut
    would be tempted by."""
    C = mc.CURVES[curve]
    e = C.p ** 6 - 1
    if cyclotomic:
        e *= C.p ** 2 + 1
    return list(C.F12.pow(C.F12.el(tuple(y)), e))


def s_fexp(name, model):
    curve = pc.CURVE_OF[name]
    p = mc.CURVES[curve].p
    plain = s_x(p)
    uni = st.tuples(s_x(p), st.booleans()).filter(lambda t: any(c % p for c in t[0])).map(
        lambda t: unitary(curve, t[0], t[1]))
    return st.fixed_dictionaries({"module": st.just(name), "x": st.one_of(plain, plain, uni), "model": st.just(model)})


def _fexp_examples(name):
    unit = lambda i: [0] * i + [1] + [0] * (11 - i)   # noqa: E731
    curve = pc.CURVE_OF[name]
    ex = [{"module": name, "x": x, "model": True} for x in ([0] * 12, unit(0), unit(1), unit(11), unit(6))]
    ex += [{"module": name, "x": x, "model": True} for x in ([3, 2] + [0] * 10, [0, 0, 5, 7, 0, 11] + [0] * 6,
                                                              [4, 0, 0, 0, 0, 0, 9, 0, 0, 0, 0, 0], [1, 0, 2, 0, 3, 0, 4, 0, 5, 0, 6, 0])]
    ex.append({"module": name, "x": unitary(curve, [3, 1, 4, 1, 5, 9, 2, 6, 5, 3, 5, 8], False), "model": True})
    ex.append({"module": name, "x": unitary(curve, [2, 7, 1, 8, 2, 8, 1, 8, 2, 8, 4, 5], True), "model": True})
    return ex


def t_diff(ctx, curve, shard, n):
    r = mc.CURVES[curve].r
    ex = [{"curve": curve, "a": 1, "b": 1, "sq": None, "sp": None},
          {"curve": curve, "a": r - 1, "b": 2, "sq": [1, 1], "sp": 2}] if shard == 0 else []
    if shard == 1:
        ex = [{"curve": curve, "a": 3, "b": 0, "sq": None, "sp": None, "inf_rep": 0},
              {"curve": curve, "a": 0, "b": 5, "sq": None, "sp": None, "inf_rep": 1},
              {"curve": curve, "a": 7, "b": r, "sq": None, "sp": 2, "inf_rep": 2}]
    if shard in (2, 3):
        # G2 representatives whose z is an Fp-multiple of the twist constant (or of its conjugate): the twisted z
        # then has a zero coefficient in its Fp12 embedding
        xi = [9, 1] if curve == "bn128" else [1, 1]
        p_ = mc.CURVES[curve].p
        ex = [{"curve": curve, "a": 5 + shard, "b": 7, "sq": xi if shard == 2 else [xi[0] * 5 % p_, (p_ - xi[1]) * 5 % p_],
               "sp": None}]
    drive(ctx, f"diff{curve}{shard}", s_diff(curve), lambda c: o_diff(ctx, c), n, ex, shrink=False)


def t_split(ctx, module, shard, n):
    name = module
    curve = pc.CURVE_OF[name]
    xi = [9, 1] if curve == "bn128" else [1, 1]
    ex = [{"module": name, "pairs": [[3 + shard, 4, [xi[0] * (2 + shard), xi[1] * (2 + shard)], 2], [5, 6, None, None]]}]
    drive(ctx, f"split{name}{shard}", s_split(name), lambda c: o_split(ctx, c), n, ex, shrink=False)


def t_fexp(ctx, module, shard, n, model):
    name = module
    ex = _fexp_examples(name)
    if not name.startswith("optimized"):
        ex = ex[shard::3]            # a reference exponentiation costs ~5 s: spread the pinned inputs
    elif shard:
        ex = []
    drive(ctx, f"fexp{name}{shard}", s_fexp(name, model), lambda c: o_fexp(ctx, c), n, ex, shrink=False)


def t_interleaved(ctx, shard, n):
    names = ("optimized_bn128", "optimized_bls12_381")

    def mk(t):
        order, xs = t
        return {"seq": [[names[i], xs[k][names[i]]] for k, i in enumerate(order)], "model": True}
    xpair = st.fixed_dictionaries({nm: s_x(mc.CURVES[pc.CURVE_OF[nm]].p) for nm in names})
    strat = st.tuples(st.sampled_from([[0, 1, 0], [1, 0, 1], [0, 1, 1, 0], [1, 0, 0, 1]]),
                      st.lists(xpair, min_size=4, max_size=4)).map(mk)
    drive(ctx, f"inter{shard}", strat, lambda c: o_interleaved(ctx, c), n, shrink=False)


def tasks(tier):
    q = tier == "quick"
    out = [Task(f"interleaved-{s}", "t_interleaved", shard=s, n=3 if q else 120) for s in range(2)]
    for s in range(4):
        for curve in ("bn128", "bls12_381"):
            out.append(Task(f"diff-{curve}-{s}", "t_diff", curve=curve, shard=s, n=3 if q else 90))
    for name in ("optimized_bn128", "optimized_bls12_381"):
        for s in range(2):
            out.append(Task(f"split-{name}-{s}", "t_split", module=name, shard=s, n=8 if q else 250))
    for name in pc.MODULES:
        if name.startswith("optimized"):
            out.append(Task(f"fexp-{name}-0", "t_fexp", module=name, shard=0, n=12 if q else 400, model=True))
        else:
            for s in range(3):
                out.append(Task(f"fexp-{name}-{s}", "t_fexp", module=name, shard=s, n=1 if q else 25, model=True))
    out.append(Task("fexp-optimized_bls12_381-1", "t_fexp", module="optimized_bls12_381", shard=1, n=40 if q else 1500,
                    model=False))
    return out
