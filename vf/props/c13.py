"""C13 - projective/Jacobian formulas equal the affine law on every control path."""
import importlib
import itertools

from hypothesis import strategies as st

from vf.harness import HarnessError, Task, drive
from vf.model import ec, nt
from vf.model.fields import Fp
from vf.model.secp import SECP
from vf.props import _fields_common as fc
from vf.props._curve_common import jpt, mod, unjpt
from vf.strategies import field_elt, scalar_in, uniform_int

RULE = ("(A) the optimized modules' add/double/neg/eq/is_on_curve/is_inf and both optimized "
        "linefuncs evaluated on ALL coordinate triples (not only curve points) over GF(q) for small "
        "q (the formulas do not use the curve equation, so agreement is a polynomial identity), "
        "secp256k1 jacobian_add/jacobian_double likewise with P patched to q; compared with the "
        "affine chord-and-tangent law - distinct by construction, non-trivial when both operands are "
        "finite; (B) Hypothesis on the real curves: random points of E1/E2/E12 of both optimized "
        "modules and of secp256k1 under independent random scalings, forced paths (generic, doubling "
        "through add with two different representatives, inverse, each infinity representative in "
        "each slot): non-trivial = both scalings != 1 or an infinity representative other than the "
        "module's own; distinct by (module, group, points, scalings)")
ASSUMPTIONS = ["affine law and line function in vf/model/ec.py",
               "tangent line at a point with y = 0 (2-torsion; none on the odd-order curves) has an "
               "undefined affine slope and is excluded from the line-function comparison",
               "secp256k1 encodes the identity as y == 0: finite results with y == 0 cannot be "
               "represented and are counted, not compared"]
ENGINE = "exhaustive enumeration over GF(q)^3 / GF(q)^6 + hypothesis on the real curves"
TECHNIQUE = ("polynomial identity testing by exhaustive enumeration of all coordinate tuples over small fields + property-based testing (Hypothesis) under random scalings on the real fields")
REQUIRED_LABELS = {t: ["A:add:generic", "A:add:double_via_add", "A:add:inverse", "A:add:inf_operand",
                       "A:line:chord", "A:line:tangent", "A:line:vertical", "A:jac:generic",
                       "A:jac:double_via_add", "B:add:double_via_add", "B:add:inverse", "B:add:same_y_other_x", "B:add:opposite_y_other_x",
                       "B:jac:endo+0", "B:jac:endo-1", "B:inf_rep:(0,0,0)",
                       "B:line", "B:jac"] for t in ("quick", "thorough")}
CURVE_MODS = ("optimized_bls12_381", "optimized_bn128")


def curve_fns(name):
    cm = importlib.import_module(f"py_ecc.{name}.optimized_curve")
    pm = importlib.import_module(f"py_ecc.{name}.optimized_pairing")
    return cm, pm


# ---- (A) small fields -----------------------------------------------------------------------------
class Small:
    def __init__(self, q):
        self.q = q
        self.F = Fp(q)
        self.FQ = fc.make("opt", q)[0]
        self.els = [self.FQ(i) for i in range(q)]
        self.inv = [0] + [nt.inv_mod(i, q) for i in range(1, q)]
        self.triples = list(itertools.product(range(q), repeat=3))
        self.aff = {t: (None if t[2] == 0 else (t[0] * self.inv[t[2]] % q, t[1] * self.inv[t[2]] % q))
                    for t in self.triples}
        self.lib = {t: (self.els[t[0]], self.els[t[1]], self.els[t[2]]) for t in self.triples}
        self._add = {}

    def madd(self, A, B):
        k = (A, B)
        if k not in self._add:
            self._add[k] = ec.add(self.F, A, B)
        return self._add[k]

    def norm(self, r):
        x, y, z = int(r[0].n), int(r[1].n), int(r[2].n)
        if z == 0:
            return None
        return (x * self.inv[z] % self.q, y * self.inv[z] % self.q)

    def shape_ok(self, r):
        return isinstance(r, tuple) and len(r) == 3 and all(type(c) is self.FQ and 0 <= c.n < self.q for c in r)


_small = {}


def small(q):
    if q not in _small:
        _small[q] = Small(q)
    return _small[q]


def o_small(ctx, case):
    """Single small-field case for replay: {module, q, fn, p1, p2?, t?, b?}."""
    S = small(case["q"])
    cm, pm = curve_fns(case["module"])
    ctx.begin("small", case)
    p1 = tuple(case["p1"])
    p2 = tuple(case["p2"]) if case.get("p2") is not None else None
    fn = case["fn"]
    if fn == "add":
        _chk_add(ctx, S, cm, case["module"], p1, p2)
    elif fn == "eq":
        _chk_eq(ctx, S, cm, case["module"], p1, p2)
    elif fn == "unary":
        _chk_unary(ctx, S, cm, case["module"], p1)
    elif fn == "line":
        _chk_line(ctx, S, pm, case["module"], p1, p2, tuple(case["t"]))
    else:
        raise HarnessError("bad fn")


def _case(S, module, fn, p1, p2=None, t=None):
    return {"module": module, "q": S.q, "fn": fn, "p1": list(p1), "p2": list(p2) if p2 else None,
            "t": list(t) if t else None}


def _chk_add(ctx, S, cm, module, t1, t2):
    ctx.ev()
    r = cm.add(S.lib[t1], S.lib[t2])
    A, B = S.aff[t1], S.aff[t2]
    want = S.madd(A, B)
    if not S.shape_ok(r) or S.norm(r) != want:
        ctx.violation("small", "add", _case(S, module, "add", t1, t2),
                      f"{module}.add({t1},{t2}) over GF({S.q}) = {r} ~ {S.norm(r) if S.shape_ok(r) else '?'}; "
                      f"affine law on {A} + {B} gives {want}", {"fn": "add"})
    if A is None or B is None:
        ctx.label("A:add:inf_operand")
    else:
        ctx.nontrivial_bulk(1)
        if A == B:
            ctx.label("A:add:double_via_add" if t1 != t2 else "A:add:double_same_rep")
        elif A[0] == B[0]:
            ctx.label("A:add:inverse")
        else:
            ctx.label("A:add:generic")


def _chk_eq(ctx, S, cm, module, t1, t2):
    ctx.ev()
    r = cm.eq(S.lib[t1], S.lib[t2])
    want = S.aff[t1] == S.aff[t2]
    if r is not want and bool(r) != want or type(r) is not bool:
        ctx.violation("small", "eq", _case(S, module, "eq", t1, t2),
                      f"{module}.eq({t1},{t2}) over GF({S.q}) = {r!r}; the points are "
                      f"{S.aff[t1]} and {S.aff[t2]}", {"fn": "eq"})


def _chk_unary(ctx, S, cm, module, t):
    A = S.aff[t]
    P = S.lib[t]
    q, F = S.q, S.F
    ctx.ev(4 + q)
    r = cm.double(P)
    want = S.madd(A, A)
    if not S.shape_ok(r) or S.norm(r) != want:
        ctx.violation("small", "double", _case(S, module, "unary", t),
                      f"{module}.double({t}) over GF({q}) ~ {S.norm(r) if S.shape_ok(r) else r}; affine: {want}",
                      {"fn": "double"})
    r = cm.neg(P)
    if not S.shape_ok(r) or S.norm(r) != ec.neg(F, A):
        ctx.violation("small", "neg", _case(S, module, "unary", t), f"{module}.neg({t}) = {r}", {"fn": "neg"})
    r = cm.is_inf(P)
    if bool(r) != (A is None):
        ctx.violation("small", "is_inf", _case(S, module, "unary", t), f"{module}.is_inf({t}) = {r}",
                      {"fn": "is_inf"})
    for b in range(q):
        r = cm.is_on_curve(P, S.els[b])
        want = True if A is None else (A[1] * A[1] - A[0] ** 3 - b) % q == 0
        if bool(r) != want:
            ctx.violation("small", "is_on_curve", _case(S, module, "unary", t),
                          f"{module}.is_on_curve({t}, b={b}) over GF({q}) = {r}; affine point {A}",
                          {"fn": "is_on_curve"})
    if A is not None:
        n = cm.normalize(P)
        if (int(n[0].n), int(n[1].n)) != A:
            ctx.violation("small", "normalize", _case(S, module, "unary", t), f"normalize({t}) = {n}",
                          {"fn": "normalize"})
        ctx.nontrivial_bulk(1)


def _chk_line(ctx, S, pm, module, t1, t2, tt):
    A, B, T = S.aff[t1], S.aff[t2], S.aff[tt]
    if A is None or B is None or T is None:
        return
    F, q = S.F, S.q
    if A == B and A[1] == 0:
        ctx.label("A:line:excluded_2torsion_tangent")
        return
    ctx.ev()
    num, den = pm.linefunc(S.lib[t1], S.lib[t2], S.lib[tt])
    got = int(num.n) * S.inv[int(den.n)] % q if int(den.n) else None
    want = ec.line(F, A, B, T)
    if got != want:
        ctx.violation("small", "linefunc", _case(S, module, "line", t1, t2, tt),
                      f"{module}.linefunc({t1},{t2},{tt}) over GF({q}) = {num}/{den} = {got}; affine line "
                      f"through {A},{B} at {T} = {want}", {"fn": "linefunc"})
    ctx.label("A:line:chord" if A[0] != B[0] else "A:line:tangent" if A == B else "A:line:vertical")
    ctx.nontrivial_bulk(1)


def t_small_pairs(ctx, module, q, chunk, nchunks):
    S = small(q)
    cm, pm = curve_fns(module)
    mine = S.triples[chunk::nchunks]
    n = 0
    for t1 in mine:
        ctx.lazy = (lambda t1=t1: ("small", _case(S, module, "unary", t1)))
        _chk_unary(ctx, S, cm, module, t1)
        for t2 in S.triples:
            _chk_add(ctx, S, cm, module, t1, t2)
            _chk_eq(ctx, S, cm, module, t1, t2)
            n += 2
    ctx.subspace(f"{module} add/eq on all pairs of GF({q})^3 x GF({q})^3, chunk {chunk}/{nchunks}; "
                 f"double/neg/is_inf/is_on_curve(all b)/normalize on the chunk's triples", n)
    ctx.sample({"module": module, "q": q, "space": "all coordinate triples and pairs", "chunk": chunk},
               f"small:{module}:{q}")


def t_small_line(ctx, module, q, chunk, nchunks, nT):
    S = small(q)
    cm, pm = curve_fns(module)
    finite = [t for t in S.triples if t[2] != 0]
    Ts = finite[3::max(1, len(finite) // nT)][:nT]
    n = 0
    for t1 in finite[chunk::nchunks]:
        for t2 in finite:
            for tt in Ts:
                _chk_line(ctx, S, pm, module, t1, t2, tt)
                n += 1
    ctx.subspace(f"{module} linefunc on all pairs of finite triples over GF({q}) x {len(Ts)} T, chunk "
                 f"{chunk}/{nchunks}", n)


# ---- secp256k1 Jacobian over small fields -------------------------------------------------------------
def o_jac_small(ctx, case):
    import py_ecc.secp256k1.secp256k1 as m
    q = case["q"]
    saved = (m.P, m.A)
    m.P, m.A = q, 0
    try:
        ctx.begin("jac_small", case)
        _chk_jac(ctx, m, q, tuple(case["p1"]), tuple(case["p2"]) if case.get("p2") else None)
    finally:
        m.P, m.A = saved


def _jaff(t, q):
    """Jacobian triple -> affine point under the library's convention (y == 0 is the identity).
    Returns 'invalid' for z == 0 with y != 0 (not a representative of anything)."""
    x, y, z = t
    if y % q == 0:
        return None
    if z % q == 0:
        return "invalid"
    zi = nt.inv_mod(z, q)
    return (x * zi * zi % q, y * zi * zi * zi % q)


def _chk_jac(ctx, m, q, t1, t2):
    F = Fp(q)
    A = _jaff(t1, q)
    if A == "invalid":
        return
    if t2 is None:
        ctx.ev()
        r = tuple(m.jacobian_double(t1))
        want = ec.add(F, A, A)
        got = _jaff(r, q)
        if want is not None and want[1] == 0:
            ctx.label("A:jac:unrepresentable_y0")
            return
        if got != want:
            ctx.violation("jac_small", "double", {"q": q, "p1": list(t1), "p2": None},
                          f"jacobian_double({t1}) mod {q} = {r} ~ {got}; affine: {want}", {"fn": "jacobian_double"})
        return
    B = _jaff(t2, q)
    if B == "invalid":
        return
    ctx.ev()
    r = tuple(m.jacobian_add(t1, t2))
    want = ec.add(F, A, B)
    got = _jaff(r, q)
    if want is not None and want[1] == 0:
        ctx.label("A:jac:unrepresentable_y0")
        return
    if got != want:
        ctx.violation("jac_small", "add", {"q": q, "p1": list(t1), "p2": list(t2)},
                      f"jacobian_add({t1},{t2}) mod {q} = {r} ~ {got}; affine law {A} + {B} = {want}",
                      {"fn": "jacobian_add"})
    if A is not None and B is not None:
        ctx.nontrivial_bulk(1)
        if A == B:
            ctx.label("A:jac:double_via_add" if t1 != t2 else "A:jac:double_same_rep")
        elif A[0] == B[0]:
            ctx.label("A:jac:inverse")
        else:
            ctx.label("A:jac:generic")
    # from_jacobian on the result
    if got is not None:
        fj = tuple(m.from_jacobian(r))
        if fj != got:
            ctx.violation("jac_small", "from_jacobian", {"q": q, "p1": list(t1), "p2": list(t2)},
                          f"from_jacobian({r}) = {fj}, expected {got}", {"fn": "from_jacobian"})


def t_jac_small(ctx, q, chunk, nchunks):
    import py_ecc.secp256k1.secp256k1 as m
    from vf.props._secp_common import substitution_supported
    ok, why = substitution_supported()
    if not ok:
        ctx.note(f"secp256k1 small-prime Jacobian tier skipped: {why}")
        ctx.label("required_waived:A:jac")
        ctx.label("jac_small_tier_skipped")
        return
    saved = (m.P, m.A)
    m.P, m.A = q, 0
    try:
        triples = list(itertools.product(range(q), repeat=3))
        n = 0
        for t1 in triples[chunk::nchunks]:
            _chk_jac(ctx, m, q, t1, None)
            for t2 in triples:
                _chk_jac(ctx, m, q, t1, t2)
                n += 1
        ctx.subspace(f"secp256k1 jacobian_add/jacobian_double with P={q}: all pairs of triples, chunk "
                     f"{chunk}/{nchunks}", n)
        ctx.sample({"q": q, "space": "all Jacobian triples and pairs", "chunk": chunk}, f"jac:{q}")
    finally:
        m.P, m.A = saved


# ---- (B) real curves -----------------------------------------------------------------------------------
INF_REPS = {"own": None, "(0,1,0)": "010", "(x,y,0)": "xy0", "(0,0,0)": "000"}


def _inf_rep(M, g, kind, seed):
    F = M.C.group(g)[0]
    if kind == "own":
        return None
    if kind == "(0,1,0)":
        return (F.zero, F.one, F.zero)
    if kind == "(0,0,0)":
        return (F.zero, F.zero, F.zero)
    x = F.from_int(seed + 2) if F.degree == 1 else tuple((seed + 2 + i) % M.C.p for i in range(F.degree))
    y = F.from_int(seed * 3 + 1) if F.degree == 1 else tuple((seed * 3 + 1 + i) % M.C.p for i in range(F.degree))
    return (x, y, F.zero)


def _model_point(M, g, k, tors):
    C = M.C
    base = {"G1": C.G1, "G2": C.G2}
    if g == "G12":
        P = C.twist(C.mul("G2", C.G2, k % C.r)) if tors % 2 == 0 else C.cast1(C.mul("G1", C.G1, k % C.r))
        return P
    P = C.mul(g, base[g], k % C.r)
    if tors and (g == "G2" or C.name == "bls12_381"):
        P = C.add(g, P, C.torsion(g, tors))
    return P


def _scale(M, g, s):
    F = M.C.group(g)[0]
    if F.degree == 1:
        return s % M.C.p or 1
    v = tuple((s * (i + 1) + i * i) % M.C.p for i in range(F.degree)) if s != 1 else F.one
    return v if not F.is_zero(v) else F.one


def o_real(ctx, case):
    """case: {module, g, k1, t1, k2, t2, rel, s1, s2, inf1, inf2, perturb}"""
    M = mod(case["module"])
    g = case["g"]
    C = M.C
    F, b = C.group(g)
    ctx.begin("real", case)
    P = _model_point(M, g, case["k1"], case["t1"])
    rel = case["rel"]
    if rel == "same":
        Q = P
    elif rel == "inverse":
        Q = C.neg(g, P)
    elif rel == "inf1":
        P, Q = None, _model_point(M, g, case["k2"], case["t2"])
    elif rel == "inf2":
        Q = None
    elif rel == "infboth":
        P = Q = None
    elif rel.startswith("endo") and P is not None:
        # same (opposite) y, different x: the image of P under (x, y) -> (beta x, +-y)
        beta = nt.cube_roots_of_unity(C.p)[int(rel[5])]
        Q = (F.smul(P[0], beta), P[1] if rel[4] == "+" else F.neg(P[1]))
    else:
        Q = _model_point(M, g, case["k2"], case["t2"])
    s1, s2 = _scale(M, g, case["s1"]), _scale(M, g, case["s2"])
    lp = M.pt(g, P, s1, _inf_rep(M, g, case["inf1"], case["s1"]))
    lq = M.pt(g, Q, s2, _inf_rep(M, g, case["inf2"], case["s2"]))
    m = M.m
    want = C.add(g, P, Q)
    r = m.add(lp, lq)
    ctx.check(M.well_formed(g, r) and M.back(g, r) == want, "real", "add", case,
              f"{M.name}.add on {g} ({rel}) != affine law", {"fn": "add"})
    r = m.add(lq, lp)
    ctx.check(M.back(g, r) == want, "real", "add_swapped", case, "add(Q,P) != affine law", {"fn": "add"})
    if lp is not None and lq is not None:
        try:
            r = m.add(list(lp), lq)          # the same point held in a list: the law cannot depend on the container
        except TypeError:
            ctx.label("B:add:list_refused")
        else:
            ctx.check(M.back(g, tuple(r)) == want, "real", "add_container", case,
                      "add(list(P), Q) != affine law", {"fn": "add"})
        ctx.label("B:add:list_point")
    r = m.double(lp)
    ctx.check(M.well_formed(g, r) and M.back(g, r) == C.add(g, P, P), "real", "double", case,
              "double != affine law", {"fn": "double"})
    r = m.neg(lp)
    ctx.check(M.back(g, r) == C.neg(g, P), "real", "neg", case, "neg != affine", {"fn": "neg"})
    e = m.eq(lp, lq)
    ctx.check(type(e) is bool and e == ec.eq(F, P, Q), "real", "eq", case,
              f"eq = {e!r}, points equal: {ec.eq(F, P, Q)}", {"fn": "eq"})
    ctx.check(m.eq(lp, M.pt(g, P, s2)) is True, "real", "eq_rep", case,
              "eq of two representatives of one point is not True", {"fn": "eq"})
    ctx.check(bool(m.is_inf(lp)) == (P is None), "real", "is_inf", case, "is_inf wrong", {"fn": "is_inf"})
    ctx.check(bool(m.is_on_curve(lp, M.bcoef[g])) is True, "real", "is_on_curve", case,
              "on-curve point reported off-curve", {"fn": "is_on_curve"})
    if P is not None:
        # off-curve neighbour under the same scaling
        bad = (P[0], F.add(P[1], F.one))
        ctx.check(ec.on_curve(F, bad, b) or bool(m.is_on_curve(M.pt(g, bad, s1), M.bcoef[g])) is False, "real", "is_on_curve_neg",
                  case, "off-curve point reported on-curve", {"fn": "is_on_curve"})
    # line function
    if P is not None and Q is not None:
        T = _model_point(M, g, case["k2"] * 3 + 1, 0)
        pm = importlib.import_module(f"py_ecc.{M.name}.optimized_pairing")
        if T is not None and not (ec.eq(F, P, Q) and F.is_zero(P[1])):
            num, den = pm.linefunc(lp, lq, M.pt(g, T, s2))
            nv, dv = fc.val(num), fc.val(den)
            wantl = ec.line(F, P, Q, T)
            ok = (not F.is_zero(dv)) and F.mul(nv, F.inv(dv)) == wantl
            ctx.check(ok, "real", "linefunc", case, f"linefunc ({rel}) != affine line", {"fn": "linefunc"})
            ctx.label("B:line")
    nt_ = False
    if rel == "same":
        ctx.label("B:add:double_via_add" if s1 != s2 else "B:add:double_same_rep")
    elif rel == "inverse":
        ctx.label("B:add:inverse")
    elif rel.startswith("endo"):
        ctx.label("B:add:same_y_other_x" if rel[4] == "+" else "B:add:opposite_y_other_x"); nt_ = True
    elif rel.startswith("inf"):
        ctx.label("B:add:inf_operand")
        for k in ("inf1", "inf2"):
            ctx.label(f"B:inf_rep:{case[k]}")
            if case[k] != "own":
                nt_ = True
    else:
        ctx.label("B:add:generic")
    one = F.one
    if s1 != one and s2 != one:
        nt_ = True
    ctx.label(f"B:{M.name}:{g}")
    if nt_:
        ctx.nontrivial(("r", canon_case(case)))
    ctx.sample(case, f"real:{M.name}:{g}:{rel}")


def canon_case(case):
    return tuple(sorted((k, str(v)) for k, v in case.items()))


def o_jac_real(ctx, case):
    """secp256k1 Jacobian add/double on real curve points with Jacobian scalings."""
    import py_ecc.secp256k1.secp256k1 as m
    N, Pm = SECP.n, SECP.p
    ctx.begin("jac_real", case)
    A = SECP.mul(SECP.g, case["k1"] % N)
    rel = case["rel"]
    B = A if rel == "same" else SECP.neg(A) if rel == "inverse" else SECP.mul(SECP.g, case["k2"] % N)
    if rel.startswith("endo"):
        B = (A[0] * nt.cube_roots_of_unity(Pm)[int(rel[5])] % Pm, A[1] if rel[4] == "+" else Pm - A[1])
    if rel == "inf1":
        A = None
    if rel == "inf2":
        B = None

    def jac(Pt, lam):
        if Pt is None:
            return (lam % Pm, 0, (lam * 7 + 1) % Pm)
        lam = lam % Pm or 1
        return (Pt[0] * lam * lam % Pm, Pt[1] * lam ** 3 % Pm, lam)

    ja, jb = jac(A, case["s1"]), jac(B, case["s2"])
    want = SECP.add(A, B)
    r = tuple(m.jacobian_add(ja, jb))
    got = _jaff(r, Pm)
    ctx.check(got == want, "jac_real", "add", case, f"jacobian_add ({rel}) ~ {got}, affine law: {want}",
              {"fn": "jacobian_add"})
    r2 = tuple(m.jacobian_double(ja))
    ctx.check(_jaff(r2, Pm) == SECP.add(A, A), "jac_real", "double", case, "jacobian_double != affine",
              {"fn": "jacobian_double"})
    fj = tuple(m.from_jacobian(r))
    ctx.check(fj == ((0, 0) if want is None else want), "jac_real", "from_jacobian", case,
              f"from_jacobian = {fj}", {"fn": "from_jacobian"})
    ctx.label("B:jac")
    ctx.label(f"B:jac:{rel}")
    if case["s1"] % Pm != 1 and case["s2"] % Pm != 1:
        ctx.nontrivial(("j", canon_case(case)))
    ctx.sample(case, f"jac_real:{rel}")


ORACLES = {"small": o_small, "jac_small": o_jac_small, "real": o_real, "jac_real": o_jac_real}


def s_real(module, g):
    M = mod(module)
    r, p = M.C.r, M.C.p
    return st.fixed_dictionaries({
        "k1": scalar_in(1, r - 1), "k2": scalar_in(1, r - 1),
        "t1": st.sampled_from([0, 0, 1, 2, 3]), "t2": st.sampled_from([0, 0, 1, 5]),
        "rel": st.sampled_from(["free", "free", "same", "same", "inverse", "inf1", "inf2", "infboth",
                                "endo+0", "endo+1", "endo-0", "endo-1"]),
        "s1": st.one_of(st.just(1), uniform_int(2, p - 1), st.sampled_from([2, p - 1])),
        "s2": st.one_of(st.just(1), uniform_int(2, p - 1), st.sampled_from([3, p - 2])),
        "inf1": st.sampled_from(list(INF_REPS)), "inf2": st.sampled_from(list(INF_REPS)),
    }).map(lambda c: dict(c, module=module, g=g))


def t_real(ctx, module, g, shard, n):
    ex = []
    if shard == 0:
        for rel in ("same", "inverse", "inf1", "inf2", "infboth", "free", "endo+0", "endo+1", "endo-0", "endo-1"):
            for inf in (INF_REPS if not rel.startswith("endo") else list(INF_REPS)[:1]):
                ex.append({"module": module, "g": g, "k1": 5, "k2": 9, "t1": 0, "t2": 0, "rel": rel, "s1": 7,
                           "s2": 11, "inf1": inf, "inf2": "own" if inf != "(0,0,0)" else "(0,1,0)"})
    drive(ctx, f"real-{module}-{g}-{shard}", s_real(module, g), lambda c: o_real(ctx, c), n, ex,
          shrink=(g != "G12"))


def t_jac_real(ctx, shard, n):
    N, Pm = SECP.n, SECP.p
    strat = st.fixed_dictionaries({
        "k1": scalar_in(1, N - 1), "k2": scalar_in(1, N - 1),
        "rel": st.sampled_from(["free", "same", "same", "inverse", "inf1", "inf2", "endo+0", "endo+1", "endo-0", "endo-1"]),
        "s1": st.one_of(st.just(1), uniform_int(2, Pm - 1)), "s2": st.one_of(st.just(1), uniform_int(2, Pm - 1))})
    ex = [{"k1": 3, "k2": 3, "rel": rel, "s1": 5, "s2": 9} for rel in ("free", "same", "inverse", "inf1", "inf2",
                                                                      "endo+0", "endo+1", "endo-0", "endo-1")]
    drive(ctx, f"jac{shard}", strat, lambda c: o_jac_real(ctx, c), n, ex if shard == 0 else ())


def tasks(tier):
    quick = tier == "quick"
    out = []
    qs = [(5, 1), (7, 2), (11, 8)] if quick else [(5, 1), (7, 2), (11, 8), (13, 16), (17, 32)]
    for module in CURVE_MODS:
        for q, nch in qs:
            for ch in range(nch):
                out.append(Task(f"pairs-{module}-{q}-{ch}", "t_small_pairs", module=module, q=q, chunk=ch,
                                nchunks=nch))
        for q, nch, nT in ([(5, 1, 12), (7, 2, 10)] if quick else [(5, 1, 100), (7, 4, 40), (11, 16, 12)]):
            for ch in range(nch):
                out.append(Task(f"line-{module}-{q}-{ch}", "t_small_line", module=module, q=q, chunk=ch,
                                nchunks=nch, nT=nT))
    for q, nch in ([(5, 1), (7, 1), (11, 4)] if quick else [(5, 1), (7, 1), (11, 4), (13, 8), (17, 16)]):
        for ch in range(nch):
            out.append(Task(f"jac-{q}-{ch}", "t_jac_small", q=q, chunk=ch, nchunks=nch))
    scale = 1 if quick else 20
    for module in CURVE_MODS:
        for g, n in (("G1", 400), ("G2", 200), ("G12", 30)):
            out.append(Task(f"real-{module}-{g}", "t_real", module=module, g=g, shard=0, n=n * scale))
    for s in range(2):
        out.append(Task(f"jac-real-{s}", "t_jac_real", shard=s, n=150 * scale))
    out.sort(key=lambda t: 0 if "real" in t.name else 1)
    return out
