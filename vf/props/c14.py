"""C14 - optimized field classes compute the same values as the reference field classes."""
import itertools

from hypothesis import strategies as st

from vf.harness import HarnessError, Task, drive
from vf.props import _fields_common as fc
from vf.props.c08 import Env
from vf.strategies import field_elt, uniform_int

RULE = ("random straight-line programs (expression trees, depth <= 8, over + - * / neg ** and int "
        "mixing; FQ also reflected forms and == != <) evaluated once in the reference class and once "
        "in the optimized class of the same field (bn128 / bls12-381 FQ, FQ2, FQ12 and small-field "
        "instantiations), results compared as canonical coefficient lists, exception classes "
        "compared when both raise; all depth-1/2 trees over all element pairs of small FQ/FQ2 "
        "enumerated; optimized sgn0 compared with RFC 9380 sgn0; non-trivial = a tree of depth >= 3 "
        "containing / or ** or an int operand (Hypothesis part) and every enumerated tree with a "
        "non-neutral operand; distinct by (field, tree, variables)")
ASSUMPTIONS = ["operations only one side supports (optimized FQP * FQ raises TypeError) are outside the "
               "common domain and are not generated",
               "sgn0 model: parity of the first non-zero coordinate (RFC 9380 section 4.1)"]
ENGINE = "hypothesis (recursive expression trees) + exhaustive depth-1/2 trees on small fields"
TECHNIQUE = ("differential property-based testing: Hypothesis expression trees and exhaustive small fields evaluated in the reference and the optimized classes")
REQUIRED_LABELS = {t: ["tree:depth>=3", "node:div", "node:pow", "node:pow>=745bits", "node:int_mix",
                       "field:real:fq12", "field:small:fq12", "build:fq_coeffs", "cmp", "sgn0:after_arithmetic", "interleaved_moduli"]
                   for t in ("quick", "thorough")}

BIN = ("add", "sub", "mul", "div")
INT_FQ = ("add_i", "radd_i", "sub_i", "rsub_i", "mul_i", "rmul_i", "div_i", "rdiv_i")
INT_FQP = ("mul_i", "rmul_i", "div_i")


class Pair:
    """The reference and the optimized class of one field."""

    def __init__(self, p, mc=None, real=None, kind=None):
        self.ref = Env("ref", p, mc, real, kind)
        self.opt = Env("opt", p, mc, real, kind)
        self.kind, self.p = self.ref.kind, p
        self.desc = {k: v for k, v in self.ref.desc().items() if k != "impl"}
        self.opt_fq = (fc.real("opt", real)[0] if real else fc.make("opt", p)[0])


def pair_from(case):
    return Pair(case["p"], case.get("mc"), case.get("real"), case.get("kind"))


def build(env, v, fq_coeffs=False, fqcls=None):
    if env.is_fq:
        return env.cls(v)
    if fq_coeffs and fqcls is not None:
        return env.cls([fqcls(c) for c in v])
    return env.cls(list(v))


def ev(env, t, vs):
    op = t[0]
    if op == "var":
        return vs[t[1]]
    if op == "neg":
        return -ev(env, t[1], vs)
    if op == "inv":
        x = ev(env, t[1], vs)
        return (1 / x) if env.is_fq else x.inv()
    if op == "pow":
        return ev(env, t[1], vs) ** t[2]
    if op in BIN:
        a, b = ev(env, t[1], vs), ev(env, t[2], vs)
        return a + b if op == "add" else a - b if op == "sub" else a * b if op == "mul" else a / b
    if op in INT_FQ:
        x, k = ev(env, t[1], vs), t[2]
        return {"add_i": lambda: x + k, "radd_i": lambda: k + x, "sub_i": lambda: x - k,
                "rsub_i": lambda: k - x, "mul_i": lambda: x * k, "rmul_i": lambda: k * x,
                "div_i": lambda: x / k, "rdiv_i": lambda: k / x}[op]()
    if op in ("eq", "ne", "lt", "le", "gt"):
        a, b = ev(env, t[1], vs), ev(env, t[2], vs)
        return {"eq": lambda: a == b, "ne": lambda: a != b, "lt": lambda: a < b, "le": lambda: a <= b,
                "gt": lambda: a > b}[op]()
    if op == "eq_i":
        return ev(env, t[1], vs) == t[2]
    if op in CMP_I:
        x, k = ev(env, t[1], vs), t[2]
        return {"ne_i": lambda: x != k, "lt_i": lambda: x < k, "le_i": lambda: x <= k, "gt_i": lambda: x > k,
                "ge_i": lambda: x >= k, "req_i": lambda: k == x, "rlt_i": lambda: k < x}[op]()
    if op == "bad_add_i":  # FQP + int: both sides must raise the same exception class
        return ev(env, t[1], vs) + t[2]
    if op == "bad_mix":
        return ev(env, t[1], vs) * "x"
    raise HarnessError(f"bad node {op}")


CMP_I = ("ne_i", "lt_i", "le_i", "gt_i", "ge_i", "req_i", "rlt_i")


def depth(t):
    return 1 + max([depth(c) for c in t[1:] if isinstance(c, list)] or [0])


def nodes(t, acc):
    acc.append(t)
    for c in t[1:]:
        if isinstance(c, list):
            nodes(c, acc)
    return acc


def outcome(env, tree, vals, fq_coeffs, fqcls):
    try:
        vs = [build(env, tuple(v) if isinstance(v, list) else v, fq_coeffs, fqcls) for v in vals]
        r = ev(env, tree, vs)
    except RecursionError:
        raise
    except Exception as e:  # noqa
        return ("raise", type(e).__name__), None
    if isinstance(r, (bool, int)) and not hasattr(r, "n"):
        return ("bool", bool(r)), r
    return ("val", fc.val(r), fc.reduced_ok(r, env.cls, env.p)), r


def o_tree(ctx, case):
    """case: {p, mc|real+kind, tree, vars, fq_coeffs}"""
    pr = pair_from(case)
    tree, vals = case["tree"], case["vars"]
    ctx.begin("tree", case)
    o_ref, r_ref = outcome(pr.ref, tree, vals, False, None)
    o_opt, r_opt = outcome(pr.opt, tree, vals, case.get("fq_coeffs", False), pr.opt_fq)
    if o_ref != o_opt:
        ctx.violation("tree", "mismatch", case,
                      f"{pr.kind} p={'real' if pr.p > 10**6 else pr.p}: reference -> {str(o_ref)[:250]}, "
                      f"optimized -> {str(o_opt)[:250]}", {"kind_f": pr.kind})
    if o_ref[0] == "val":
        ctx.check(o_ref[2] and o_opt[2], "tree", "not_reduced", case, "a result is not in reduced form")
        # sgn0 of the optimized result against RFC 9380
        want = pr.opt.F.sgn0(o_opt[1]) if not pr.opt.is_fq else o_opt[1] % 2
        got = r_opt.sgn0
        ctx.check(got == want, "tree", "sgn0", case,
                  f"optimized sgn0({o_opt[1]}) = {got}, RFC 9380 gives {want}", {"kind_f": pr.kind})
    ns = nodes(tree, [])
    d = depth(tree)
    ops = {n[0] for n in ns}
    if d >= 3:
        ctx.label("tree:depth>=3")
    if "div" in ops or "inv" in ops or "div_i" in ops or "rdiv_i" in ops:
        ctx.label("node:div")
    big = any(n[0] == "pow" and n[2].bit_length() >= 745 for n in ns)
    if "pow" in ops:
        ctx.label("node:pow")
    if big:
        ctx.label("node:pow>=745bits")
    if ops & set(INT_FQ):
        ctx.label("node:int_mix")
    if ops & ({"eq", "ne", "lt", "le", "gt", "eq_i"} | set(CMP_I)):
        ctx.label("cmp")
    if o_ref[0] == "raise":
        ctx.label("both_raise:" + o_ref[1])
    ctx.label(("field:real:" if case.get("real") else "field:small:") + pr.kind)
    if case.get("fq_coeffs"):
        ctx.label("build:fq_coeffs")
    if d >= 3 and (ops & ({"div", "inv", "pow"} | set(INT_FQ))):
        ctx.nontrivial(("t", str(pr.desc), str(tree), str(vals)))
    ctx.sample(case, f"tree:{pr.kind}:{'real' if case.get('real') else 'small'}")


def o_sgn0(ctx, case):
    pr = pair_from(case)
    v = tuple(case["a"]) if isinstance(case["a"], list) else case["a"]
    ctx.begin("sgn0", case)
    x = build(pr.opt, v, case.get("fq_coeffs", False), pr.opt_fq)
    want = pr.opt.F.sgn0(pr.opt.F.el(v)) if not pr.opt.is_fq else v % pr.p % 2
    ctx.check(x.sgn0 == want, "sgn0", "mismatch", case, f"sgn0({v}) = {x.sgn0}, RFC 9380: {want}",
              {"kind_f": pr.kind})
    ctx.check(x.sgn0 == x.sgn0, "sgn0", "cache", case, "cached sgn0 differs")
    # the sign of a COMPUTED element, after the sign of its operands has been read (sgn0 is memoised per
    # instance: nothing of an operand's memo may travel into a result)
    if "b" in case:
        w = tuple(case["b"]) if isinstance(case["b"], list) else case["b"]
        y = build(pr.opt, w, False, pr.opt_fq)
        _ = (x.sgn0, y.sgn0)
        F = pr.opt.F
        xv, yv = (F.el(v), F.el(w)) if not pr.opt.is_fq else (v % pr.p, w % pr.p)
        ops = [("add", x + y, F.add(xv, yv)), ("sub", x - y, F.sub(xv, yv)), ("mul", x * y, F.mul(xv, yv)),
               ("rsub", y - x, F.sub(yv, xv)), ("neg", -x, F.neg(xv)), ("mul3", x * 3, F.smul(xv, 3))]
        if not F.is_zero(yv):
            ops.append(("div", x / y, F.div(xv, yv)))
        for nm, res, val in ops:
            want_r = F.sgn0(val) if not pr.opt.is_fq else val % 2
            ctx.check(res.sgn0 == want_r, "sgn0", f"after_{nm}", case,
                      f"sgn0 of the result of {nm} = {res.sgn0}, RFC 9380 on its value {val}: {want_r}", {"kind_f": pr.kind})
        ctx.label("sgn0:after_arithmetic")


ORACLES = {"tree": o_tree, "sgn0": o_sgn0, "small": o_tree}


# ---- exhaustive depth-1/2 trees on small fields ---------------------------------------------------
def t_small_exh(ctx, p, mc):
    pr = Pair(p, mc)
    F = pr.ref.F
    els = [e if isinstance(e, tuple) else e for e in F.elements()]
    els = [tuple(e) if isinstance(e, tuple) else e for e in els]
    desc = pr.desc
    int_ops = INT_FQ if pr.ref.is_fq else INT_FQP
    cnt = 0
    ref_el = {e: build(pr.ref, e) for e in els}
    opt_el = {e: build(pr.opt, e) for e in els}

    def cmp(tree, vals):
        nonlocal cnt
        cnt += 1
        ctx.ev()
        try:
            a = fc.val(ev(pr.ref, tree, [ref_el[v] for v in vals]))
            b = fc.val(ev(pr.opt, tree, [opt_el[v] for v in vals]))
            ok = a == b
        except Exception:  # noqa  fall through to the full oracle for a proper report
            ok = False
        if not ok:
            o_tree(ctx, dict(desc, tree=tree, vars=[list(v) if isinstance(v, tuple) else v for v in vals]))

    for a in els:
        for t in (["neg", ["var", 0]], ["inv", ["var", 0]], ["pow", ["var", 0], 0], ["pow", ["var", 0], 1],
                  ["pow", ["var", 0], 2], ["pow", ["var", 0], F.order - 1], ["pow", ["var", 0], F.order + 3]):
            cmp(t, [a])
        o_sgn0(ctx, dict(desc, a=list(a) if isinstance(a, tuple) else a))
        if not pr.ref.is_fq:
            o_sgn0(ctx, dict(desc, a=list(a), fq_coeffs=True))
        for k in range(-p - 1, 2 * p + 2):
            for op in int_ops:
                cmp([op, ["var", 0], k], [a])
    if len(els) <= 200:
        for a, b in itertools.product(els, repeat=2):
            o_sgn0(ctx, dict(desc, a=list(a) if isinstance(a, tuple) else a, b=list(b) if isinstance(b, tuple) else b))
    for a, b in itertools.product(els, repeat=2):
        for op1 in BIN:
            cmp([op1, ["var", 0], ["var", 1]], [a, b])
            for op2 in BIN:
                cmp([op2, [op1, ["var", 0], ["var", 1]], ["var", 1]], [a, b])
                cmp([op2, ["var", 0], [op1, ["var", 0], ["var", 1]]], [a, b])
        if pr.ref.is_fq and b == els[0]:
            # comparisons with Python ints on both sides of [0, p): an int is compared as the integer it is
            for k in range(-p - 1, 2 * p + 2):
                for op in ("eq_i",) + CMP_I:
                    cmp([op, ["var", 0], k], [a])
        if pr.ref.is_fq:
            for op in ("eq", "ne", "lt"):
                ctx.ev()
                if ev(pr.ref, [op, ["var", 0], ["var", 1]], [ref_el[a], ref_el[b]]) != \
                        ev(pr.opt, [op, ["var", 0], ["var", 1]], [opt_el[a], opt_el[b]]):
                    o_tree(ctx, dict(desc, tree=[op, ["var", 0], ["var", 1]], vars=[a, b]))
    ctx.nontrivial_bulk(cnt)
    ctx.label("field:small:" + pr.kind, cnt)
    ctx.subspace(f"ref vs opt {pr.kind} over GF({p}) {list(mc) if mc else ''}: all unary, all "
                 f"depth-1 and depth-2 binary trees over all element pairs", cnt)
    ctx.sample(dict(desc, space="all depth<=2 trees over all pairs"), f"exh:{pr.kind}:{p}")


# ---- Hypothesis trees ---------------------------------------------------------------------------
def s_tree(p, d, nvars, is_fq, order, allow_big):
    leaf = st.integers(0, nvars - 1).map(lambda i: ["var", i])
    ints = st.one_of(st.sampled_from([0, 1, -1, 2, p, p + 1, -p, 2 * p + 3, 2 ** 400, -2 ** 400]),
                     st.integers(-2 ** 520, 2 ** 520), uniform_int(-2 ** 520, 2 ** 520))
    small_exp = st.one_of(st.integers(0, 12), st.sampled_from([p, p - 1, p + 1]))
    big_exp = st.one_of(st.sampled_from([order - 1, order, 2 ** 745, (order - 1) // 2]),
                        uniform_int(2 ** 744, 2 ** 760), uniform_int(0, order))
    exp = st.one_of(small_exp, small_exp, big_exp) if allow_big else small_exp
    int_ops = INT_FQ if is_fq else INT_FQP

    def ext(ch):
        return st.one_of(
            st.tuples(st.sampled_from(BIN), ch, ch).map(list),
            st.tuples(st.sampled_from(BIN), ch, ch).map(list),
            st.tuples(st.just("neg"), ch).map(list),
            st.tuples(st.just("inv"), ch).map(list),
            st.tuples(st.just("pow"), ch, exp).map(list),
            st.tuples(st.sampled_from(int_ops), ch, ints).map(list),
        )

    return st.recursive(leaf, ext, max_leaves=12)


def limit_depth(t, maxd=8):
    return depth(t) <= maxd + 1


def cap_big_pows(t, budget):
    """Keep at most `budget` exponents above 256 bits in one tree (cost control)."""
    if not isinstance(t, list):
        return t, budget
    if t[0] == "pow":
        sub, budget = cap_big_pows(t[1], budget)
        n = t[2]
        if n.bit_length() > 256:
            if budget > 0:
                budget -= 1
            else:
                n = n % 1000
        return ["pow", sub, n], budget
    out = [t[0]]
    for c in t[1:]:
        if isinstance(c, list):
            c, budget = cap_big_pows(c, budget)
        out.append(c)
    return out, budget


def t_trees(ctx, p, mc, real, kind, shard, n, big_budget):
    d = {"fq": 1, "fq2": 2, "fq12": 12}[kind]
    is_fq = d == 1
    order = p ** d
    base = {"p": p}
    if real:
        base.update(real=real, kind=kind)
    elif mc is not None:
        base["mc"] = list(mc)
    coeff = field_elt(p)
    el = coeff if is_fq else st.one_of(
        st.lists(coeff, min_size=d, max_size=d),
        st.tuples(st.lists(coeff, min_size=d, max_size=d), st.lists(st.booleans(), min_size=d, max_size=d))
        .map(lambda t: [c if m else 0 for c, m in zip(*t)]))
    tree = s_tree(p, d, 3, is_fq, order, big_budget > 0).filter(limit_depth).map(
        lambda t: cap_big_pows(t, big_budget)[0])
    root = tree if not is_fq else st.one_of(
        tree, tree, st.tuples(st.sampled_from(["eq", "ne", "lt", "le", "gt"]), tree, tree).map(list),
        st.tuples(st.just("eq_i"), tree, st.integers(0, p - 1)).map(list),
        st.tuples(st.sampled_from(("eq_i",) + CMP_I), tree,
                  st.one_of(st.integers(-p - 2, 2 * p + 2), st.sampled_from([p, p + 1, -1, 2 * p, p * p, -p]),
                            st.integers(-(1 << 400), 1 << 400))).map(list))
    strat = st.fixed_dictionaries({"tree": root, "vars": st.lists(el, min_size=3, max_size=3),
                                   "fq_coeffs": st.booleans() if not is_fq else st.just(False)}).map(
        lambda c: dict(base, **c))
    ex = []
    if shard == 0:
        v = [1 if is_fq else [1] + [0] * (d - 1)] * 3
        ex = [dict(base, tree=["bad_mix", ["var", 0]], vars=v, fq_coeffs=False),
              dict(base, tree=["pow", ["var", 0], 2 ** 745 + 1], vars=v, fq_coeffs=False),
              dict(base, tree=["div", ["var", 0], ["sub", ["var", 1], ["var", 1]]], vars=v, fq_coeffs=False)]
        # powers of ZERO at the exponents where an 'exponent mod (order - 1)' shortcut is wrong, and 0 ** 0
        z = [0 if is_fq else [0] * d] * 3
        for e_ in (order - 1, 2 * (order - 1), 0, order):
            ex.append(dict(base, tree=["pow", ["var", 0], e_], vars=z, fq_coeffs=False))
        # and of a non-zero element at the group order and around it
        g_ = [2 % p or 1 if is_fq else [1, 1] + [0] * (d - 2)] * 3
        for e_ in (order - 1, order, order - 2, -1):
            ex.append(dict(base, tree=["pow", ["var", 0], e_], vars=g_, fq_coeffs=False))
        if not is_fq:
            ex.append(dict(base, tree=["bad_add_i", ["var", 0], 1], vars=v, fq_coeffs=False))
            ex.append(dict(base, tree=["add", ["var", 0], ["var", 1]], vars=v, fq_coeffs=True))
    drive(ctx, f"trees{shard}", strat, lambda c: o_tree(ctx, c), n, ex, shrink=(d < 12))
    sg = st.fixed_dictionaries({"a": el, "b": el, "fq_coeffs": st.booleans() if not is_fq else st.just(False)}).map(
        lambda c: dict(base, **c))
    drive(ctx, f"sgn0{shard}", sg, lambda c: o_sgn0(ctx, c), max(6, n // 4), shrink=(d < 12))


def t_interleaved(ctx, p, count):
    """Several quadratic moduli over ONE prime used in one process, one after the other and then the
    first again: a class must not inherit anything (reduction table, cached constants) from another
    class that merely shares its characteristic and degree."""
    mods = fc.irreducible_quadratics(p)
    pick = [mods[0], mods[-1], mods[len(mods) // 2]][:count]
    seq = pick + [pick[0]]
    for i, mc in enumerate(seq):
        t_small_exh(ctx, p, fc.neg_form(mc, p) if i % 2 else mc)
    ctx.label("interleaved_moduli")


def tasks(tier):
    quick = tier == "quick"
    out = [Task(f"interleaved-fq2-{p}", "t_interleaved", p=p, count=2 if quick else 3) for p in (3, 5)]
    for p in (2, 3, 5, 7, 13):
        out.append(Task(f"exh-fq-{p}", "t_small_exh", p=p, mc=None))
    for p in (2, 3, 5) + (() if quick else (7,)):
        mods = fc.irreducible_quadratics(p)
        for mc in (mods[:2] if quick else mods[:4]):
            out.append(Task(f"exh-fq2-{p}-{mc[0]}{mc[1]}", "t_small_exh", p=p, mc=fc.neg_form(mc, p)))
    scale = 1 if quick else 25
    for p in (2, 3, 5, 7, 13):
        for j, mc in enumerate(fc.find_deg12(p) if p <= 7 else []):
            out.append(Task(f"trees-small-fq12-{p}-{j}", "t_trees", p=p, mc=fc.neg_form(mc, p) if j else mc,
                            real=None, kind="fq12", shard=0, n=60 * scale, big_budget=1))
        out.append(Task(f"trees-small-fq2-{p}", "t_trees", p=p,
                        mc=fc.neg_form(fc.irreducible_quadratics(p)[-1], p), real=None, kind="fq2",
                        shard=0, n=150 * scale, big_budget=2))
        out.append(Task(f"trees-small-fq-{p}", "t_trees", p=p, mc=None, real=None, kind="fq", shard=0,
                        n=150 * scale, big_budget=2))
    for real in ("bn128", "bls12_381"):
        p = fc.REAL[real][0]
        for kind, n, shards, bb in (("fq", 400, 1, 3), ("fq2", 250, 1, 2), ("fq12", 18, 4, 1)):
            for s in range(shards * (1 if quick else 2)):
                out.append(Task(f"trees-{real}-{kind}-{s}", "t_trees", p=p, mc=None, real=real, kind=kind,
                                shard=s, n=n * scale, big_budget=bb))
    return out
