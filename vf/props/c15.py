"""C15 - expand_message_xmd and hash_to_field match RFC 9380 for all parameters."""
import hashlib

from hypothesis import strategies as st

from vf.harness import HarnessError, Task, drive, hx, same_by_name, unhx
from vf.model import h2c, vectors
from vf.strategies import sized_binary

RULE = ("Hypothesis-generated (msg, DST, len_in_bytes, hash) compared byte-for-byte with a model of "
        "RFC 9380 5.3.1 written from the text (anchored on RFC K.1/K.2 incl. SHA-512 and the "
        "draft-09 vectors) and hash_to_field_FQ/FQ2 with the 5.2 model; must-raise cases for "
        "ell > 255 and len(DST) > 255; non-trivial = a hash other than SHA-256, a boundary length "
        "(0, 1, b-1, b, b+1, 2b, >=254 blocks), a boundary DST (0, 1, 254, 255, >255) or count >= 3; "
        "distinct by sha256 of the inputs")
ASSUMPTIONS = ["hashlib primitives are correct (shared by model and library)",
               "fixed-output hashlib functions only (shake_* have no digest_size semantics here)"]
ENGINE = "hypothesis"
TECHNIQUE = ("property-based testing (Hypothesis) against an independent RFC 9380 model for every fixed-size hashlib function")
HASHES = ["sha256", "sha512", "sha384", "sha3_256", "blake2b", "sha1", "sha224", "md5", "sha3_224",
          "sha3_384", "sha3_512", "blake2s"]
REQUIRED_LABELS = {t: ["xmd:hash=sha512", "xmd:hash=sha3_256", "xmd:hash=blake2b", "xmd:ell=255",
                       "xmd:must_raise:ell", "xmd:must_raise:dst", "xmd:dst=255", "xmd:dst=0",
                       "h2f:FQ2", "h2f:FQ", "xmd:ell>=3"] + ["xmd:blocks:" + k for k in
                      ("lead_zero_both", "trail_zero_both", "lead_equal", "trail_equal")] for t in ("quick", "thorough")}


def selfcheck():
    for name, dst, msg, n, want in vectors.XMD_RFC9380:
        if h2c.expand_message_xmd(msg, dst, n, name) != want:
            raise HarnessError("expand_message_xmd model fails RFC 9380 K vectors")
    for msg, n, want in vectors.XMD_DRAFT09:
        if h2c.expand_message_xmd(msg, vectors.XMD_DRAFT09_DST, n, "sha256") != want:
            raise HarnessError("expand_message_xmd model fails draft-09 vectors")


_blocks, block_class, search_blocks, BLOCK_KINDS = h2c.xmd_blocks, h2c.block_class, h2c.search_blocks, h2c.BLOCK_KINDS


def o_xmd(ctx, case):
    from py_ecc.bls.hash import expand_message_xmd
    msg, dst, n, name = unhx(case["msg"]), unhx(case["dst"]), case["n"], case["hash"]
    H = getattr(hashlib, name)
    b = H().digest_size
    ell = -(-n // b)
    ctx.begin("xmd", case)
    must_raise = ell > 255 or len(dst) > 255 or n > 65535
    try:
        got = expand_message_xmd(msg, dst, n, H)
        raised = None
    except Exception as e:  # the property says "raising", any exception type
        got, raised = None, e
    if must_raise:
        ctx.check(raised is not None, "xmd", "accepted_invalid", case,
                  f"returned {len(got) if got is not None else '?'} bytes for ell={ell}, len(DST)={len(dst)}")
        ctx.label("xmd:must_raise:" + ("dst" if len(dst) > 255 else "ell"))
        ctx.nontrivial(("xr", case["msg"], case["dst"], n, name))
        ctx.sample(case, "xmd:raise:" + ("dst" if len(dst) > 255 else "ell"))
        return
    if raised is not None:
        ctx.violation("xmd", "refused_valid", case, f"raised {raised!r} for a valid request")
        return
    # the hash function handed over as another kind of constructor with the same behaviour (the argument
    # is "a hashlib-style constructor", not the object hashlib.sha256 itself)
    style = case.get("ctor", 0)
    if style:
        import functools
        H2 = (lambda data=b"": hashlib.new(name, data)) if style == 1 else functools.partial(hashlib.new, name)
        try:
            got2 = expand_message_xmd(msg, dst, n, H2)
        except (TypeError, AttributeError):
            ctx.label("xmd:ctor_style_refused")
        else:
            ctx.check(bytes(got2) == bytes(got), "xmd", "constructor_identity", case,
                      "the output depends on WHICH constructor object for the same hash function is passed")
            ctx.label("xmd:other_ctor_style")
    same_by_name(ctx, "xmd", case, expand_message_xmd, (msg, dst, n, H), got, "expand_message_xmd")
    want = h2c.expand_message_xmd(msg, dst, n, name)
    ok = isinstance(got, (bytes, bytearray)) and len(got) == n and bytes(got) == want
    if not ok:
        ctx.violation("xmd", "mismatch", case,
                      f"expand_message_xmd(len {n}, {name}) = {hx(got)[:64]}.. (len {len(got)}), "
                      f"RFC 9380 gives {hx(want)[:64]}..")
    nt_ = False
    ctx.label(f"xmd:hash={name}")
    if name != "sha256":
        nt_ = True
    if n in (0, 1, b - 1, b, b + 1, 2 * b) or ell >= 254:
        nt_ = True
    if ell == 255:
        ctx.label("xmd:ell=255")
    if ell >= 3:
        ctx.label("xmd:ell>=3")
    if n == 0:
        ctx.label("xmd:n=0")
    if len(dst) in (0, 1, 254, 255):
        ctx.label(f"xmd:dst={len(dst)}"); nt_ = True
    if ell >= 2 and len(msg) < 5000:
        for k in block_class(*_blocks(msg, dst, n, name)):
            ctx.label("xmd:blocks:" + k)
            if k.endswith("zero_both"):
                nt_ = True
    bs = H().block_size
    if len(msg) in (bs - 1, bs, bs + 1):
        ctx.label("xmd:msg~block")
    if nt_:
        ctx.nontrivial(("x", case["msg"], case["dst"], n, name))
    ctx.sample(case, f"xmd:{name}")


def o_h2f(ctx, case):
    from py_ecc.bls.hash_to_curve import hash_to_field_FQ, hash_to_field_FQ2
    from py_ecc.optimized_bls12_381 import FQ, FQ2
    msg, dst, count, name, m = unhx(case["msg"]), unhx(case["dst"]), case["count"], case["hash"], case["m"]
    H = getattr(hashlib, name)
    ctx.begin("h2f", case)
    want = h2c.hash_to_field(msg, count, dst, m, name)
    if m == 1:
        got = hash_to_field_FQ(msg, count, dst, H)
        ok = isinstance(got, tuple) and len(got) == count and all(type(g) is FQ for g in got) and \
            [(int(g.n),) for g in got] == [tuple(w) for w in want] and all(0 <= g.n < h2c.P for g in got)
        ctx.label("h2f:FQ")
    else:
        got = hash_to_field_FQ2(msg, count, dst, H)
        ok = isinstance(got, tuple) and len(got) == count and all(type(g) is FQ2 for g in got) and \
            [tuple(int(c) for c in g.coeffs) for g in got] == [tuple(w) for w in want]
        ctx.label("h2f:FQ2")
    if not ok:
        ctx.violation("h2f", "mismatch", case, f"hash_to_field (m={m}, count={count}) = {got!r}"[:300]
                      + f" expected {want!r}"[:300])
    ctx.label(f"h2f:count={count}")
    if count >= 3 or name != "sha256" or len(dst) in (0, 255):
        ctx.nontrivial(("f", case["msg"], case["dst"], count, name, m))
    ctx.sample(case, f"h2f:m={m}")


ORACLES = {"xmd": o_xmd, "h2f": o_h2f}


def s_dst():
    # tags whose last byte already looks like the length octet that DST_prime appends (an "append the
    # length unless it is there" helper would be wrong exactly on these)
    selfdescribing = st.binary(min_size=0, max_size=60).map(
        lambda d: [d + bytes([len(d)]), d + bytes([(len(d) + 1) % 256]), d + b"\x00"][len(d) % 3])
    return st.one_of(sized_binary((0, 1, 2, 16, 43, 254, 255), 255), selfdescribing,
                     st.sampled_from([b"QUUX-V01-CS02-with-expander-SHA256-128",
                                      b"BLS_SIG_BLS12381G2_XMD:SHA-256_SSWU_RO_POP_"])).map(hx)


@st.composite
def s_xmd(draw):
    name = draw(st.one_of(st.just("sha256"), st.sampled_from(HASHES)))
    H = getattr(hashlib, name)
    b, bs = H().digest_size, H().block_size
    n = draw(st.one_of(
        st.sampled_from([0, 1, b - 1, b, b + 1, 2 * b - 1, 2 * b, 2 * b + 1, 3 * b, 254 * b, 255 * b - 1,
                         255 * b, 128, 256]),
        st.integers(0, 255 * b), st.integers(0, 6 * b)))
    from vf.strategies import huge_msg
    msg = draw(st.one_of(huge_msg() if draw(st.integers(0, 29)) == 0 else st.binary(max_size=8),
                         sized_binary((0, 1, bs - 1, bs, bs + 1, 2 * bs), 300),
                         st.binary(min_size=1024, max_size=4096) if draw(st.integers(0, 19)) == 0
                         else st.binary(max_size=64)))
    return {"msg": hx(msg), "dst": draw(s_dst()), "n": n, "hash": name, "ctor": draw(st.sampled_from([0, 0, 1, 2]))}


@st.composite
def s_xmd_blocks(draw):
    """Requests whose block sequence is in one of BLOCK_KINDS (found by search in the model)."""
    name = draw(st.one_of(st.just("sha256"), st.sampled_from(HASHES)))
    b = getattr(hashlib, name)().digest_size
    ell = draw(st.sampled_from([2, 3, 8, 100, 200, 254, 255]))
    kind = draw(st.sampled_from(BLOCK_KINDS))
    n = ell * b - draw(st.sampled_from([0, 0, 1, b - 1]))
    dst = unhx(draw(s_dst()))
    msg = search_blocks(draw(st.binary(max_size=40)), dst, n, name, kind)
    return {"msg": hx(msg), "dst": hx(dst), "n": n, "hash": name, "ctor": 0}


@st.composite
def s_xmd_bad(draw):
    name = draw(st.sampled_from(HASHES))
    b = getattr(hashlib, name)().digest_size
    kind = draw(st.sampled_from(["ell", "ell", "dst", "both"]))
    n = draw(st.sampled_from([255 * b + 1, 256 * b, 65535, 65536, 70000, 255 * b + b])) \
        if kind in ("ell", "both") else draw(st.integers(0, 4 * b))
    if kind == "ell" and n <= 255 * b:
        n = 255 * b + 1
    dst = draw(st.sampled_from([256, 257, 300, 512]).flatmap(lambda k: st.binary(min_size=k, max_size=k))) \
        if kind in ("dst", "both") else draw(st.binary(max_size=255))
    return {"msg": hx(draw(st.binary(max_size=40))), "dst": hx(dst), "n": n, "hash": name}


def s_h2f():
    return st.fixed_dictionaries({
        "msg": sized_binary((0, 1, 55, 56, 64), 200).map(hx), "dst": s_dst(),
        "count": st.integers(1, 8), "hash": st.one_of(st.just("sha256"), st.sampled_from(HASHES)),
        "m": st.sampled_from([1, 2])})


def t_xmd(ctx, shard, n):
    ex = []
    if shard == 0:
        for name, dst, msg, k, _ in vectors.XMD_RFC9380:
            ex.append({"msg": hx(msg), "dst": hx(dst), "n": k, "hash": name})
        for name in HASHES:
            b = getattr(hashlib, name)().digest_size
            for k in (0, 1, b, 3 * b + 1, 255 * b, 255 * b + 1, 65536):
                for dl in (0, 255, 256):
                    ex.append({"msg": "616263", "dst": "41" * dl, "n": k, "hash": name})
    drive(ctx, f"xmd{shard}", s_xmd(), lambda c: o_xmd(ctx, c), n, ex)
    drive(ctx, f"xmdblocks{shard}", s_xmd_blocks(), lambda c: o_xmd(ctx, c), max(12, n // 30))
    drive(ctx, f"xmdbad{shard}", s_xmd_bad(), lambda c: o_xmd(ctx, c), max(20, n // 10))
    drive(ctx, f"h2f{shard}", s_h2f(), lambda c: o_h2f(ctx, c), n // 3)


def tasks(tier):
    selfcheck()
    n = 900 if tier == "quick" else 40000
    return [Task(f"xmd-{s}", "t_xmd", shard=s, n=n) for s in range(16)]
