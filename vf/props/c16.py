"""C16 - HKDF and KeyGen match RFC 5869 and the BLS draft for all inputs."""
import hashlib

from hypothesis import strategies as st

from vf.harness import HarnessError, Task, drive, hx, same_by_name, unhx
from vf.model import kdf, vectors
from vf.strategies import sized_binary

RULE = ("Hypothesis-generated (salt, ikm), (prk, info, L) and (IKM, key_info) cases compared "
        "byte-for-byte with an RFC 5869 / draft-04 model built on a hand-written HMAC "
        "(and with OpenSSL HKDF when importable); non-trivial = L not a multiple of 32 or "
        ">= 8129 or 0, an empty or >64-byte salt/prk, empty info, IKM shorter than 32 bytes, "
        "or a KeyGen case with non-empty key_info; distinct by sha256 of the inputs")
ASSUMPTIONS = [
    "hashlib.sha256 is correct (shared by model and library); HMAC is re-implemented in the model",
    "the SK == 0 retry branch is exercised by injecting a zero first output, not by search",
]
ENGINE = "hypothesis"
TECHNIQUE = ("property-based testing (Hypothesis) against an independent RFC 5869 / draft-04 model (and OpenSSL), fault injection for the SK = 0 retry")
REQUIRED_LABELS = {"quick": ["expand:last_block", "expand:L=8160", "keygen:info_nonempty",
                             "keygen:retry_injected"],
                   "thorough": ["expand:last_block", "expand:L=8160", "keygen:info_nonempty",
                                "keygen:retry_injected"]}

try:  # optional fully foreign oracle
    from cryptography.hazmat.primitives import hashes as _ch
    from cryptography.hazmat.primitives.kdf.hkdf import HKDF as _HKDF, HKDFExpand as _HKDFExpand
    HAVE_OPENSSL = True
except Exception:  # pragma: no cover
    HAVE_OPENSSL = False


def selfcheck():
    a = vectors.HKDF_A1
    if kdf.hkdf_extract(a["salt"], a["ikm"]) != a["prk"] or \
            kdf.hkdf_expand(a["prk"], a["info"], a["L"]) != a["okm"]:
        raise HarnessError("HKDF model disagrees with RFC 5869 A.1")
    for seed, want in vectors.EIP2333:
        if kdf.keygen_v4(seed) != want:
            raise HarnessError("KeyGen model disagrees with EIP-2333 vectors")
    if kdf.hmac256(b"k" * 70, b"data") != kdf.hmac256_manual(b"k" * 70, b"data"):
        raise HarnessError("manual HMAC disagrees with hmac module")


# ------------------------------------------------------------------------------------
def o_extract(ctx, case):
    from py_ecc.bls.hash import hkdf_extract
    salt, ikm = unhx(case["salt"]), unhx(case["ikm"])
    ctx.begin("extract", case)
    got = hkdf_extract(salt, ikm)
    same_by_name(ctx, "extract", case, hkdf_extract, (salt, ikm), got, "hkdf_extract")
    want = kdf.hkdf_extract(salt, ikm)
    ctx.check(isinstance(got, (bytes, bytearray)) and bytes(got) == want, "extract", "mismatch",
              case, f"hkdf_extract={hx(got) if isinstance(got,(bytes,bytearray)) else got!r} model={hx(want)}")
    got2 = hkdf_extract(bytearray(salt), bytearray(ikm))
    ctx.check(bytes(got2) == want, "extract", "bytearray_mismatch", case, "bytearray inputs differ")
    ctx.label(f"extract:salt_len={'0' if not salt else '<=64' if len(salt) <= 64 else '>64'}")
    if not salt or len(salt) > 64 or len(ikm) < 32:
        ctx.nontrivial(("x", case["salt"], case["ikm"]))
    ctx.sample(case, "extract")


def o_expand(ctx, case):
    from py_ecc.bls.hash import hkdf_expand
    prk, info, L = unhx(case["prk"]), unhx(case["info"]), case["L"]
    ctx.begin("expand", case)
    got = hkdf_expand(prk, info, L)
    same_by_name(ctx, "expand", case, hkdf_expand, (prk, info, L), got, "hkdf_expand")
    want = kdf.hkdf_expand(prk, info, L)
    ok = isinstance(got, (bytes, bytearray)) and bytes(got) == want and len(got) == L
    ctx.check(ok, "expand", "mismatch", case,
              f"hkdf_expand(len {len(got) if hasattr(got,'__len__') else '?'}) != model (len {L})")
    if HAVE_OPENSSL and 0 < L:
        o = _HKDFExpand(_ch.SHA256(), L, info).derive(prk)
        if o != want:
            raise HarnessError("model HKDF-Expand disagrees with OpenSSL")
        ctx.label("expand:openssl_agrees")
    nt = False
    if L % 32:
        ctx.label("expand:L%32!=0"); nt = True
    if L >= 8129:
        ctx.label("expand:last_block"); nt = True
    if L == 8160:
        ctx.label("expand:L=8160")
    if L == 0:
        ctx.label("expand:L=0"); nt = True
    if not info:
        ctx.label("expand:info_empty"); nt = True
    if len(prk) > 64:
        ctx.label("expand:prk>64"); nt = True
    if nt:
        ctx.nontrivial(("e", case["prk"], case["info"], L))
    ctx.sample(case, "expand")


def o_hkdf(ctx, case):
    """extract-then-expand through the library vs OpenSSL's one-shot HKDF and the model."""
    from py_ecc.bls.hash import hkdf_expand, hkdf_extract
    salt, ikm, info, L = unhx(case["salt"]), unhx(case["ikm"]), unhx(case["info"]), case["L"]
    ctx.begin("hkdf", case)
    got = bytes(hkdf_expand(hkdf_extract(salt, ikm), info, L))
    want = kdf.hkdf_expand(kdf.hkdf_extract(salt, ikm), info, L)
    ctx.check(got == want, "hkdf", "mismatch", case, "extract+expand differs from model")
    if HAVE_OPENSSL and L > 0:
        o = _HKDF(_ch.SHA256(), L, salt, info).derive(ikm)
        if o != want:
            raise HarnessError("model HKDF disagrees with OpenSSL")
        ctx.label("hkdf:openssl_agrees")
    if L % 32 or not salt or not info:
        ctx.nontrivial(("h", case["salt"], case["ikm"], case["info"], L))
    ctx.sample(case, "hkdf")


def o_keygen(ctx, case):
    from eth_utils import ValidationError  # noqa: F401
    from py_ecc.bls import G2Basic, G2MessageAugmentation, G2ProofOfPossession
    ikm, info = unhx(case["ikm"]), unhx(case["info"])
    ctx.begin("keygen", case)
    want = kdf.keygen_v4(ikm, info)
    r = kdf.R_BLS
    outs = []
    for suite in (G2Basic, G2MessageAugmentation, G2ProofOfPossession):
        got = suite.KeyGen(ikm, info) if info or case.get("explicit_info") else suite.KeyGen(ikm)
        outs.append(got)
        ctx.check(isinstance(got, int) and not isinstance(got, bool) and 1 <= got < r, "keygen",
                  "range", case, f"{suite.__name__}.KeyGen returned {got!r} outside [1, r-1]")
        ctx.check(got == want, "keygen", "mismatch", case,
                  f"{suite.__name__}.KeyGen={got} model={want}")
    again = G2Basic.KeyGen(ikm, info)
    ctx.check(again == outs[0], "keygen", "nondeterministic", case, "two calls differ")
    bi, bk = bytearray(ikm), bytearray(info)
    try:
        got_ba = G2Basic.KeyGen(bi, bk)
    except (TypeError, ValidationError):
        ctx.label("keygen:bytearray_refused")          # a stricter type gate would be legitimate
    else:
        ctx.check(got_ba == want, "keygen", "bytearray_mismatch", case, f"KeyGen on bytearray arguments = {got_ba}")
        ctx.check(bytes(bi) == ikm and bytes(bk) == info, "keygen", "argument_mutated", case,
                  "KeyGen changed the bytearray it was given")
    ctx.label(f"keygen:ikm_len={'<32' if len(ikm) < 32 else '>=32'}")
    if info:
        ctx.label("keygen:info_nonempty")
        ctx.nontrivial(("k", case["ikm"], case["info"]))
    elif len(ikm) < 32:
        ctx.nontrivial(("k", case["ikm"], case["info"]))
    ctx.sample(case, "keygen")


def o_keygen_retry(ctx, case):
    """Force the first HKDF output to zero (SK = 0) and watch the loop re-hash the salt."""
    import py_ecc.bls.ciphersuites as cs
    ikm, info = unhx(case["ikm"]), unhx(case["info"])
    ctx.begin("keygen_retry", case)
    real = cs.hkdf_expand
    calls = []

    def fake(prk, info_, length):
        calls.append((bytes(prk), bytes(info_), length))
        if len(calls) == 1:
            return b"\x00" * length
        return real(prk, info_, length)

    cs.hkdf_expand = fake
    try:
        got = cs.G2Basic.KeyGen(ikm, info)
    finally:
        cs.hkdf_expand = real
    # draft: salt = H(salt) before *each* attempt
    salt = hashlib.sha256(hashlib.sha256(b"BLS-SIG-KEYGEN-SALT-").digest()).digest()
    prk = kdf.hkdf_extract(salt, ikm + b"\x00")
    want = int.from_bytes(kdf.hkdf_expand(prk, info + (48).to_bytes(2, "big"), 48), "big") % kdf.R_BLS
    ctx.check(len(calls) == 2, "keygen_retry", "attempts", case, f"{len(calls)} attempts, expected 2")
    ctx.check(got == want and 1 <= got < kdf.R_BLS, "keygen_retry", "mismatch", case,
              f"KeyGen after a zero first attempt = {got}, draft procedure gives {want}")
    ctx.label("keygen:retry_injected")
    ctx.nontrivial(("kr", case["ikm"], case["info"]))
    ctx.sample(case, "keygen_retry")


ORACLES = {"extract": o_extract, "expand": o_expand, "hkdf": o_hkdf, "keygen": o_keygen,
           "keygen_retry": o_keygen_retry}

# ------------------------------------------------------------------------------------
LENS = (0, 1, 31, 32, 33, 63, 64, 65, 127, 128, 129, 254, 255, 256, 257, 299, 300)
L_SPECIAL = (0, 1, 31, 32, 33, 63, 64, 65, 8128, 8129, 8159, 8160)


def s_bin():
    # plus strings that end like something the functions append themselves (block counter 01, 02, ff;
    # a zero byte; the length suffix of KeyGen)
    tail = st.tuples(st.binary(max_size=70), st.sampled_from([b"\x01", b"\x02", b"\xff", b"\x00", b"\x00\x30"])).map(
        lambda t: t[0] + t[1])
    # every length 0..300 with equal weight (st.binary alone is biased towards short strings)
    anylen = st.integers(0, 300).flatmap(lambda k: st.binary(min_size=k, max_size=k))
    return st.one_of(sized_binary(LENS, 300), sized_binary(LENS, 300), tail, anylen).map(hx)


def s_L():
    return st.one_of(st.sampled_from(L_SPECIAL), st.integers(0, 8160), st.integers(0, 200))


def t_hkdf(ctx, shard, n):
    a = vectors.HKDF_A1
    ex_extract = [{"salt": hx(a["salt"]), "ikm": hx(a["ikm"])}, {"salt": "", "ikm": ""}]
    ex_expand = [{"prk": hx(a["prk"]), "info": hx(a["info"]), "L": a["L"]}] + \
                [{"prk": hx(a["prk"]), "info": "", "L": L} for L in L_SPECIAL] + \
                [{"prk": hx(a["prk"]), "info": hx(bytes(range(256))[:k] + bytes(max(0, k - 256))), "L": 42}
                 for k in (255, 256, 257, 300)]
    drive(ctx, f"extract{shard}", st.fixed_dictionaries({"salt": s_bin(), "ikm": s_bin()}),
          lambda c: o_extract(ctx, c), n, ex_extract if shard == 0 else ())
    drive(ctx, f"expand{shard}", st.fixed_dictionaries({"prk": s_bin(), "info": s_bin(), "L": s_L()}),
          lambda c: o_expand(ctx, c), n, ex_expand if shard == 0 else ())
    drive(ctx, f"hkdf{shard}",
          st.fixed_dictionaries({"salt": s_bin(), "ikm": s_bin(), "info": s_bin(), "L": s_L()}),
          lambda c: o_hkdf(ctx, c), n // 2)


def t_keygen(ctx, shard, n):
    ex = [{"ikm": hx(seed), "info": ""} for seed, _ in vectors.EIP2333] + \
         [{"ikm": "", "info": ""}, {"ikm": "00" * 32, "info": "00"}, {"ikm": "11" * 32, "info": "0030"},
          {"ikm": "22" * 32, "info": hx(b"validator-0") + "0030"}, {"ikm": "33" * 32, "info": "00300030"},
          {"ikm": "", "info": "", "explicit_info": True}]
    strat = st.fixed_dictionaries({
        "ikm": sized_binary((0, 1, 16, 31, 32, 33, 64, 128), 128).map(hx),
        "info": st.one_of(st.just(""), sized_binary((0, 1, 2, 32, 64), 64).map(hx),
                          # key_info that already ends like the suffix KeyGen appends (I2OSP(48, 2) = 00 30)
                          st.tuples(st.binary(max_size=40), st.sampled_from([b"\x00\x30", b"\x00", b"\x30", b"\x00\x30\x00\x30",
                                                                             b"\x30\x00", b"\x00\x20", b"0"])).map(
                              lambda t: hx(t[0] + t[1]))),
    })
    drive(ctx, f"keygen{shard}", strat, lambda c: o_keygen(ctx, c), n, ex if shard == 0 else ())
    drive(ctx, f"retry{shard}", strat, lambda c: o_keygen_retry(ctx, c), max(2, n // 20),
          [{"ikm": "", "info": ""}] if shard == 0 else ())


def tasks(tier):
    selfcheck()
    n = 1500 if tier == "quick" else 60000
    out = []
    for s in range(8):
        out.append(Task(f"hkdf-{s}", "t_hkdf", shard=s, n=n))
        out.append(Task(f"keygen-{s}", "t_keygen", shard=s, n=max(200, n // 4)))
    return out
