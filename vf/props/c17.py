"""C17 - subgroup membership test is exact; cofactor clearing lands in the subgroup."""
from hypothesis import strategies as st

from vf.harness import HarnessError, Task, drive
from vf.model import bls12381 as B
from vf.model import params
from vf.model.curves import BLS
from vf.props import _bls_common as bc

P, R = B.P, B.R
RULE = ("Hypothesis-constructed points of E(Fp) and E'(Fp2): kG (k boundary/every bit length/uniform), "
        "identity in five representations, full cofactor components T = r*(random curve point), points of "
        "exact small order (3, 11 on E1; 13, 23 on E2), kG + T and random curve points, each under a random "
        "projective scaling. subgroup_check(P) must equal the value known by construction and the model's "
        "r*P = O; multiply_clear_cofactor_G1/G2 and clear_cofactor_G1/G2 must equal the model's h_eff*P, "
        "(G2) the psi-endomorphism formula of RFC 9380 G.3, and lie in the subgroup; the constants "
        "H_EFF_G1, H_EFF_G2, G2_COFACTOR, curve_order equal the values derived from the curve parameter x. "
        "Non-trivial = a must-reject membership case (non-trivial cofactor component) or a clearing case "
        "with a non-subgroup input; distinct by input digest")
ASSUMPTIONS = ["model arithmetic vf/model/ec.py over Fp / Fp2; cofactors derived from the BLS12 family "
               "polynomials in vf/model/params.py (h1 r = p + 1 - t asserted there; h2 r checked by "
               "annihilating random twist points)"]
ENGINE = "hypothesis"
TECHNIQUE = ("property-based testing (Hypothesis) with constructed subgroup, torsion and small-order points against model membership and model cofactor clearing")
_REQ = ["sub:G1:accept", "sub:G2:accept", "sub:G1:reject:torsion", "sub:G2:reject:torsion",
        "sub:G1:reject:small_order_3", "sub:G1:reject:small_order_11", "sub:G2:reject:small_order_13",
        "sub:G2:reject:small_order_23", "sub:G1:reject:kG+T", "sub:G2:reject:kG+T", "sub:G1:inf", "sub:G2:inf",
        "sub:G1:scaled", "sub:G2:scaled", "clear:G1:non_subgroup", "clear:G2:non_subgroup", "consts"]
REQUIRED_LABELS = {"quick": _REQ, "thorough": _REQ}


def selfcheck():
    B.selfcheck()
    # the cofactors really annihilate the curve groups; h_eff is coprime to r and clears the cofactor
    for g, h, heff in (("G1", params.BLS_H1, params.BLS_HEFF1), ("G2", params.BLS_H2, params.BLS_HEFF2)):
        Q = BLS.point_from_seed(g, 77)
        if BLS.mul(g, Q, h * R) is not None:
            raise HarnessError("model group order wrong")
        if heff % R == 0 or BLS.mul(g, BLS.mul(g, Q, heff), R) is not None:
            raise HarnessError("model h_eff does not clear the cofactor / is not coprime to r")


def _g2p():
    import py_ecc.bls.g2_primitives as g
    return g


def o_subgroup(ctx, case):
    g = case["g"]
    pt = bc.unjp(case["pt"])
    sub = "subgroup_" + g
    ctx.begin(sub, case)
    scale = bc.unjel(case.get("scale", 1 if g == "G1" else [1, 0]))
    lp = bc.lib_point(g, pt, scale=scale, inf_rep=case.get("inf_rep", 0))
    want = BLS.mul(g, pt, R) is None
    kind = case.get("kind", "?")
    # value known before any multiplication by r
    if kind in ("kG", "inf", "G") and not want:
        raise HarnessError(f"model says a multiple of the generator is outside the subgroup: {case}")
    if (kind.startswith("small_order") or kind == "kG+T") and want and pt is not None:
        raise HarnessError(f"constructed cofactor component vanished unexpectedly: {case}")
    got = _g2p().subgroup_check(lp)
    ctx.check(type(got) is bool, sub, "type", case, f"subgroup_check returned {got!r}")
    ctx.check(got == want, sub, "accepts_non_member" if got else "rejects_member", case,
              f"subgroup_check = {got}, but r*P {'=' if want else '!='} O ({kind})")
    if pt is None:
        ctx.label(f"sub:{g}:inf")
    elif want:
        ctx.label(f"sub:{g}:accept")
    else:
        ctx.label(f"sub:{g}:reject:{kind}")
        ctx.nontrivial(("s", g, case["pt"], case.get("scale")))
    if pt is not None and scale not in (1, (1, 0)):
        ctx.label(f"sub:{g}:scaled")
    ctx.sample(case, f"sub:{g}:{kind}")


def o_clear(ctx, case):
    import py_ecc.bls.hash_to_curve as h2c
    import py_ecc.optimized_bls12_381 as ob
    g = case["g"]
    pt = bc.unjp(case["pt"])
    sub = "clear_" + g
    ctx.begin(sub, case)
    scale = bc.unjel(case.get("scale", 1 if g == "G1" else [1, 0]))
    lp = bc.lib_point(g, pt, scale=scale, inf_rep=case.get("inf_rep", 0))
    if g == "G1":
        want = B.clear_cofactor_g1(pt)
        fns = (("multiply_clear_cofactor_G1", ob.multiply_clear_cofactor_G1), ("clear_cofactor_G1", h2c.clear_cofactor_G1))
    else:
        want = B.clear_cofactor_g2(pt)
        if B.clear_cofactor_g2_psi(pt) != want:
            raise HarnessError("model: psi-based clearing differs from h_eff multiplication")
        fns = (("multiply_clear_cofactor_G2", ob.multiply_clear_cofactor_G2), ("clear_cofactor_G2", h2c.clear_cofactor_G2))
    if BLS.mul(g, want, R) is not None:
        raise HarnessError("model: cleared point outside the subgroup")
    for name, fn in fns:
        out = fn(lp)
        ctx.check(bc.OB().well_formed(g, out), sub, "malformed", case, f"{name} returned {out!r}")
        got = bc.back(g, out)
        ctx.check(got == want, sub, "value", case, f"{name}(P) = {got}, h_eff*P = {want}")
        ctx.check(_g2p().subgroup_check(out) is True, sub, "not_in_subgroup", case,
                  f"{name}(P) fails subgroup_check")
    member = BLS.mul(g, pt, R) is None
    ctx.label(f"clear:{g}:{'subgroup' if member else 'non_subgroup'}")
    if not member:
        ctx.nontrivial(("c", g, case["pt"], case.get("scale")))
    ctx.sample(case, f"clear:{g}:{case.get('kind')}")


def o_consts(ctx, case):
    import py_ecc.bls.constants as bcst
    import py_ecc.optimized_bls12_381 as ob
    import py_ecc.optimized_bls12_381.constants as k
    ctx.begin("consts", case)
    pairs = [("H_EFF_G1", k.H_EFF_G1, params.BLS_HEFF1), ("H_EFF_G2", k.H_EFF_G2, params.BLS_HEFF2),
             ("G2_COFACTOR", bcst.G2_COFACTOR, params.BLS_H2), ("curve_order", ob.curve_order, params.BLS_R),
             ("field_modulus", ob.field_modulus, params.BLS_P)]
    for name, got, want in pairs:
        ctx.check(type(got) is int and got == want, "consts", name, case,
                  f"{name} = {got}, derived from x = -0xd201000000010000: {want}")
        ctx.nontrivial(("k", name))
    ctx.label("consts")
    ctx.sample(case, "consts")


ORACLES = {"subgroup_G1": o_subgroup, "subgroup_G2": o_subgroup, "clear_G1": o_clear, "clear_G2": o_clear,
           "consts": o_consts}


def torsion_lines(ell=13):
    """All ell + 1 cyclic subgroups of E'(Fp2)[ell] when the full ell-torsion is rational (it is for 13):
    two independent points T0, S0 and the representatives S0, T0 + k S0.  A defect tied to an endomorphism
    eigen-line of the torsion shows on only two of them."""
    T0 = bc.small_point("G2", ell, 1)
    for seed in range(2, 40):
        S0 = bc.small_point("G2", ell, seed)
        if all(BLS.mul("G2", T0, k) != S0 for k in range(1, ell)):
            break
    else:
        return [T0]
    return [S0] + [BLS.add("G2", T0, BLS.mul("G2", S0, k)) for k in range(ell)]


def s_case(g):
    def attach(t):
        d = dict(t[0])
        d["scale"], d["inf_rep"] = t[1], t[2]
        return d
    return st.tuples(bc.point_desc(g), bc.scale_for(g), st.integers(0, 4)).map(attach)


def _examples(g):
    one = 1 if g == "G1" else [1, 0]
    gen = BLS.G1 if g == "G1" else BLS.G2
    ex = [{"g": g, "kind": "inf", "pt": None, "scale": one, "inf_rep": i} for i in range(5)]
    for k in (1, 2, R - 1, R - 2):
        ex.append({"g": g, "kind": "kG", "pt": bc.jp(BLS.mul(g, gen, k)), "scale": one, "inf_rep": 0})
    for ell in bc.SMALL_ORDERS[g]:
        ex.append({"g": g, "kind": f"small_order_{ell}", "pt": bc.jp(bc.small_point(g, ell, 1)),
                   "scale": one, "inf_rep": 0})
    if g == "G2":
        for i, T in enumerate(torsion_lines(13)):
            ex.append({"g": g, "kind": "small_order_13", "pt": bc.jp(BLS.mul("G2", T, 1 + i % 12)),
                       "scale": one if i % 2 else [3, 5], "inf_rep": 0, "line": i})
    return ex


def t_sub(ctx, g, shard, n):
    if shard == 0:
        o_consts(ctx, {})
    drive(ctx, f"sub{g}{shard}", s_case(g), lambda c: o_subgroup(ctx, c), n, _examples(g) if shard == 0 else ())


def t_clear(ctx, g, shard, n):
    drive(ctx, f"clear{g}{shard}", s_case(g), lambda c: o_clear(ctx, c), n, _examples(g) if shard == 0 else ())


def tasks(tier):
    selfcheck()
    q = tier == "quick"
    out = []
    for s in range(4):
        out.append(Task(f"sub-G1-{s}", "t_sub", g="G1", shard=s, n=300 if q else 12000))
        out.append(Task(f"sub-G2-{s}", "t_sub", g="G2", shard=s, n=100 if q else 4000))
        out.append(Task(f"clear-G1-{s}", "t_clear", g="G1", shard=s, n=250 if q else 10000))
        out.append(Task(f"clear-G2-{s}", "t_clear", g="G2", shard=s, n=40 if q else 1600))
    return out
