"""C18 - secp256k1 point arithmetic equals the textbook group law for all points/scalars."""
import functools

from hypothesis import strategies as st

from vf.harness import HarnessError, Task, drive
from vf.model import nt, params
from vf.model.secp import SECP
from vf.props._secp_common import from_lib, patched, substitution_supported, tiny_curves, to_lib
from vf.strategies import scalar_in

RULE = ("(A) the module's add/multiply/privtopub run with its curve constants replaced by every "
        "prime-order curve y^2=x^3+b over small primes: all point pairs (incl. identity), all "
        "points x all n in -(2N+3)..2N+3, compared with an affine model - every such case is "
        "distinct and counted as non-trivial unless both operands are the identity; (B) real "
        "constants, Hypothesis: non-trivial = P=Q / P=-Q collision, Q = +-lambda*P (same or opposite y, different x), "
        "identity operand, n<0 or n>=N, n related to the endomorphism eigenvalue (lambda, lambda+1, 2(lambda+1), 1-lambda ...)")
ASSUMPTIONS = ["affine model in vf/model/ec.py; SEC 2 constants typed into vf/model/params.py",
               "tiny-curve substitution replaces module attributes P,N,A,B,Gx,Gy,G at run time"]
ENGINE = "exhaustive enumeration on substituted tiny curves + hypothesis on the real curve"
TECHNIQUE = ("exhaustive enumeration on substituted tiny prime-order curves + property-based testing (Hypothesis) on the real constants against an independent affine model")
REQUIRED_LABELS = {t: ["B:add:double", "B:add:inverse", "B:add:identity", "B:mul:n<0", "B:mul:n>=N",
                       "B:add:same_or_opposite_y", "B:mul:endomorphism_related", "B:result_with_tiny_coordinate",
                       "A:add:double", "A:add:inverse"] for t in ("quick", "thorough")}
try:
    from cryptography.hazmat.primitives.asymmetric import ec as _cec
    HAVE_OPENSSL = True
except Exception:  # pragma: no cover
    HAVE_OPENSSL = False

N, P = params.SECP_N, params.SECP_P


def selfcheck():
    if not (nt.is_prime(P) and nt.is_prime(N) and SECP.on_curve(SECP.g) and SECP.mul(SECP.g, N) is None):
        raise HarnessError("secp256k1 model constants inconsistent")
    two_g = (0xC6047F9441ED7D6D3045406E95C07CD85C778E4B8CEF3CA7ABAC09B95C709EE5,
             0x1AE168FEA63DC339A3C58419466CEAEEF7F632653266D0E1236431A950CFE52A)
    if SECP.mul(SECP.g, 2) != two_g:
        raise HarnessError("secp256k1 model fails the 2G anchor")


# ---- (A) exhaustive tiny curves --------------------------------------------------------------
def o_tiny(ctx, case):
    """case: {p, b, n, g, mode: 'all'} - enumerates the whole curve; or a single failing
    sub-case {.., op: 'add', P, Q} / {.., op: 'mul', P, k} / {.., op: 'priv', d} for replay."""
    p, b, n, g = case["p"], case["b"], case["n"], tuple(case["g"])
    with patched(p, b, n, g) as (m, C):
        if case.get("op") == "add":
            _tiny_add(ctx, m, C, case, tuple(case["P"]), tuple(case["Q"]))
        elif case.get("op") == "mul":
            _tiny_mul(ctx, m, C, case, tuple(case["P"]), case["k"])
        elif case.get("op") == "priv":
            _tiny_priv(ctx, m, C, case, case["d"])
        else:
            pts = [None] + [C.mul(g, i) for i in range(1, n)]
            assert len(set(pts)) == n
            for Pm in pts:
                for Qm in pts:
                    _tiny_add(ctx, m, C, case, to_lib(Pm), to_lib(Qm))
            for Pm in pts:
                for k in range(-(2 * n + 3), 2 * n + 4):
                    _tiny_mul(ctx, m, C, case, to_lib(Pm), k)
            for d in range(1, n):
                _tiny_priv(ctx, m, C, case, d)
            ctx.subspace(f"secp256k1 code on y^2=x^3+{b} over GF({p}), order {n}: all pairs, "
                         f"all points x n in [-(2N+3), 2N+3], all private keys",
                         n * n + n * (4 * n + 7) + n - 1)
            ctx.sample({"p": p, "b": b, "n": n, "g": list(g)}, "tiny")


def _sub(case, **kw):
    c = {k: case[k] for k in ("p", "b", "n", "g")}
    c.update(kw)
    return c


def _tiny_add(ctx, m, C, case, Pl, Ql):
    ctx.ev()
    got = tuple(m.add(Pl, Ql))
    want = to_lib(C.add(from_lib(Pl), from_lib(Ql)))
    if got != want:
        ctx.violation("tiny", "add", _sub(case, op="add", P=list(Pl), Q=list(Ql)),
                      f"add({Pl},{Ql}) on y^2=x^3+{C.b} mod {C.p} = {got}, affine law gives {want}")
    if Pl != (0, 0) or Ql != (0, 0):
        ctx.nontrivial_bulk(1)
    if Pl == Ql and Pl != (0, 0):
        ctx.label("A:add:double")
    elif Pl != (0, 0) and Ql != (0, 0) and Pl[0] == Ql[0]:
        ctx.label("A:add:inverse")


def _tiny_mul(ctx, m, C, case, Pl, k):
    ctx.ev()
    got = tuple(m.multiply(Pl, k))
    want = to_lib(C.mul(from_lib(Pl), k % C.n))
    if got != want:
        ctx.violation("tiny", "multiply", _sub(case, op="mul", P=list(Pl), k=k),
                      f"multiply({Pl},{k}) on y^2=x^3+{C.b} mod {C.p} (N={C.n}) = {got}, expected {want}")
    if Pl != (0, 0):
        ctx.nontrivial_bulk(1)


def _tiny_priv(ctx, m, C, case, d):
    ctx.ev()
    got = tuple(m.privtopub(d.to_bytes(32, "big")))
    want = to_lib(C.mul(C.g, d))
    if got != want:
        ctx.violation("tiny", "privtopub", _sub(case, op="priv", d=d),
                      f"privtopub({d}) = {got}, expected {want}")
    ctx.nontrivial_bulk(1)


def t_tiny(ctx, curves):
    ok, why = substitution_supported()
    if not ok:
        # the module no longer takes its curve from the substitutable names alone: this tier would report the
        # optimisation, not the property.  The real-curve tier stands on its own.
        ctx.note(f"tiny-curve tier skipped: {why}")
        ctx.label("required_waived:A:")
        ctx.label("tiny_tier_skipped")
        return
    for (p, b, n, g) in curves:
        o_tiny(ctx, {"p": p, "b": b, "n": n, "g": list(g)})


# ---- (B) real constants ---------------------------------------------------------------------
def _pt(k):
    return SECP.mul(SECP.g, k % N)


def o_add(ctx, case):
    """case: {a, b}: P = a*G, Q = b*G (a, b taken mod N; 0 = identity)."""
    from py_ecc.secp256k1 import secp256k1 as m
    a, b = case["a"] % N, case["b"] % N
    ctx.begin("add", case)
    Pm, Qm = _pt(a), _pt(b)
    got = tuple(m.add(to_lib(Pm), to_lib(Qm)))
    want = to_lib(SECP.add(Pm, Qm))
    ctx.check(got == want, "add", "mismatch", case, f"add(aG,bG)={got} expected {want}")
    ctx.check(want == to_lib(_pt(a + b)), "add", "model", case, "model inconsistent") if False else None
    got2 = tuple(m.add(to_lib(Qm), to_lib(Pm)))
    ctx.check(got2 == got, "add", "commutativity", case, "add(P,Q) != add(Q,P)")
    # the same points as other sequence types (a point decoded from JSON is a list): same sum
    for ca, cb in ((tuple, list), (list, tuple), (list, list)):
        try:
            g3 = tuple(m.add(ca(to_lib(Pm)), cb(to_lib(Qm))))
        except TypeError:
            ctx.label("B:add:list_points_refused")      # refusing non-tuples would be legitimate
            continue
        ctx.check(g3 == want, "add", "container_type", case,
                  f"add({ca.__name__} P, {cb.__name__} Q) = {g3}, expected {want}")
    ctx.label("B:add:mixed_containers")
    nt_ = False
    if a == 0 or b == 0:
        ctx.label("B:add:identity"); nt_ = True
    elif a == b:
        ctx.label("B:add:double"); nt_ = True
    elif (a + b) % N == 0:
        ctx.label("B:add:inverse"); nt_ = True
    elif Pm[1] == Qm[1] or (Pm[1] + Qm[1]) % P == 0:
        ctx.label("B:add:same_or_opposite_y"); nt_ = True
    else:
        ctx.label("B:add:generic")
    if nt_:
        ctx.nontrivial(("add", a, b))
    ctx.sample(case, "add")


@functools.lru_cache(maxsize=64)
def tiny_coord_point(j):
    """A curve point with a very small x (j even) or a very small y (j odd): coordinates below 2^32 + 977 are where a
    special-form reduction for p = 2^256 - 2^32 - 977 that forgets its final subtraction goes wrong."""
    v = 1 + j // 2
    while True:
        if j % 2 == 0:
            y = nt.sqrt_mod((v ** 3 + 7) % P, P)
            if y is not None:
                return (v, y)
        else:
            x = nt.cbrt_mod((v * v - 7) % P, P)
            if x is not None:
                return (x, v)
        v += 37


def o_target(ctx, case):
    """Sums and multiples whose RESULT is a chosen point R (tiny x or tiny y): add(A, R - A) and multiply(R / k, k)."""
    from py_ecc.secp256k1 import secp256k1 as m
    ctx.begin("target", case)
    R_ = tiny_coord_point(case["j"])
    a, k = case["a"] % N or 1, case["k"] % N or 1
    A_ = _pt(a)
    Bm = SECP.add(R_, SECP.neg(A_))
    got = tuple(m.add(to_lib(A_), to_lib(Bm)))
    ctx.check(got == to_lib(R_), "target", "add", case, f"add(A, R - A) = {got}, expected R = {R_}")
    Q_ = SECP.mul(R_, nt.inv_mod(k, N))
    got = tuple(m.multiply(to_lib(Q_), k))
    ctx.check(got == to_lib(R_), "target", "multiply", case, f"multiply(R / k, k) = {got}, expected R = {R_}")
    got = tuple(m.add(to_lib(R_), to_lib(A_)))
    ctx.check(got == to_lib(SECP.add(R_, A_)), "target", "add_from", case, "add(R, A) != group law")
    ctx.label("B:result_with_tiny_coordinate")
    ctx.nontrivial(("t", case["j"], a, k))
    ctx.sample(case, "target")


def o_assoc(ctx, case):
    from py_ecc.secp256k1 import secp256k1 as m
    a, b, c = (case[k] % N for k in "abc")
    ctx.begin("assoc", case)
    A, B, C = (to_lib(_pt(x)) for x in (a, b, c))
    l = tuple(m.add(m.add(A, B), C))
    r = tuple(m.add(A, m.add(B, C)))
    ctx.check(l == r == to_lib(_pt(a + b + c)), "assoc", "mismatch", case,
              f"(P+Q)+R={l} P+(Q+R)={r}")
    ctx.label("B:assoc")
    if len({a, b, c}) < 3 or 0 in (a, b, c) or (a + b) % N == 0 or (b + c) % N == 0:
        ctx.nontrivial(("assoc", a, b, c))


def o_mul(ctx, case):
    """case: {a, n}: multiply(a*G, n) == ((a*n) mod N) * G."""
    from py_ecc.secp256k1 import secp256k1 as m
    a, n = case["a"] % N, case["n"]
    ctx.begin("mul", case)
    got = tuple(m.multiply(to_lib(_pt(a)), n))
    want = to_lib(SECP.mul(_pt(a), n % N))
    ctx.check(got == want, "mul", "mismatch", case, f"multiply(aG,{n})={got} expected {want}")
    nt_ = False
    if n < 0:
        ctx.label("B:mul:n<0"); nt_ = True
    elif n >= N:
        ctx.label("B:mul:n>=N"); nt_ = True
    elif n in (0, 1, 2, N - 1):
        ctx.label("B:mul:boundary"); nt_ = True
    elif n in ENDO:
        ctx.label("B:mul:endomorphism_related"); nt_ = True
    else:
        ctx.label("B:mul:in_range")
    if a == 0:
        ctx.label("B:mul:identity_point"); nt_ = True
    if nt_:
        ctx.nontrivial(("mul", a, n))
    ctx.sample(case, "mul")


def o_priv(ctx, case):
    from py_ecc.secp256k1 import secp256k1 as m
    d = case["d"]
    ctx.begin("priv", case)
    got = tuple(m.privtopub(d.to_bytes(32, "big")))
    want = to_lib(_pt(d))
    ctx.check(got == want, "priv", "mismatch", case, f"privtopub({d})={got} expected {want}")
    if HAVE_OPENSSL and 1 <= d < N:
        nums = _cec.derive_private_key(d, _cec.SECP256K1()).public_key().public_numbers()
        if (nums.x, nums.y) != want:
            raise HarnessError("model d*G disagrees with OpenSSL")
        ctx.label("B:priv:openssl_agrees")
    ctx.label("B:priv")
    if d.bit_length() > 200 or d < 4:
        ctx.nontrivial(("priv", d))
    ctx.sample(case, "priv")


def o_consts(ctx, case):
    from py_ecc.secp256k1 import secp256k1 as m
    ctx.begin("consts", case)
    ok = (m.P == P and m.N == N and m.A == 0 and m.B == 7 and tuple(m.G) == params.SECP_G
          and (m.Gx, m.Gy) == params.SECP_G)
    ctx.check(ok, "consts", "mismatch", case, "module constants differ from SEC 2 secp256k1")
    ctx.nontrivial(("consts",))


ORACLES = {"tiny": o_tiny, "target": o_target, "add": o_add, "assoc": o_assoc, "mul": o_mul, "priv": o_priv,
           "consts": o_consts}

KS = scalar_in(0, N, extra=(2, 3, N - 2))
LAMS = nt.cube_roots_of_unity(N)
ENDO = nt.endo_scalars(N)
NS = st.one_of(st.sampled_from([0, 1, 2, 3, N - 1, N, N + 1, 2 * N, 2 * N + 5, -1, -2, -N, -N - 1,
                                -2 * N - 3, 2 ** 256, 2 ** 512 - 1]), st.sampled_from(ENDO),
               st.integers(-2 ** 512, 2 ** 512), st.integers(0, N - 1), st.integers(-N, 3 * N),
               st.integers(-100, 100))


@st.composite
def s_pair(draw):
    a = draw(KS)
    kind = draw(st.sampled_from(["free", "free", "same", "inverse", "identity", "near", "endo"]))
    if kind == "endo":
        # Q = +-lambda * P: the image of P under (x, y) -> (beta x, +-y); same or opposite y, different x
        b = draw(st.sampled_from([1, -1])) * draw(st.sampled_from(LAMS)) * a % N
    elif kind == "same":
        b = a
    elif kind == "inverse":
        b = (N - a) % N
    elif kind == "identity":
        b = 0
        if draw(st.booleans()):
            a, b = b, a
    elif kind == "near":
        b = (a + draw(st.sampled_from([1, -1, 2]))) % N
    else:
        b = draw(KS)
    return {"a": a, "b": b}


def t_real(ctx, shard, n):
    if shard == 0:
        o_consts(ctx, {})
    ex_add = [{"a": a, "b": b} for a in (0, 1, 2, N - 1) for b in (0, 1, 2, N - 1, N - 2)]
    ex_mul = [{"a": a, "n": k} for a in (0, 1, 5) for k in
              (0, 1, 2, 3, N - 1, N, N + 1, 2 * N + 7, -1, -7, -N, 2 ** 512 - 1)]
    ex_mul += [{"a": 1 + i % 3, "n": k} for i, k in enumerate(ENDO)]
    ex_add += [{"a": a, "b": sg * lam * a % N} for a in (1, 2, 77) for lam in LAMS for sg in (1, -1)]
    drive(ctx, f"add{shard}", s_pair(), lambda c: o_add(ctx, c), n, ex_add if shard == 0 else ())
    drive(ctx, f"assoc{shard}", st.fixed_dictionaries({"a": KS, "b": KS, "c": KS}),
          lambda c: o_assoc(ctx, c), n // 3,
          [{"a": 1, "b": 1, "c": 1}, {"a": 1, "b": N - 1, "c": 5}, {"a": 3, "b": 3, "c": N - 6}]
          if shard == 0 else ())
    drive(ctx, f"mul{shard}", st.fixed_dictionaries({"a": KS, "n": NS}), lambda c: o_mul(ctx, c),
          n, ex_mul if shard == 0 else ())
    drive(ctx, f"target{shard}", st.fixed_dictionaries({"j": st.integers(0, 19), "a": KS, "k": scalar_in(1, N - 1)}),
          lambda c: o_target(ctx, c), max(6, n // 20), [{"j": j, "a": 5 + j, "k": 3 + j} for j in range(4)] if shard == 0 else ())
    drive(ctx, f"priv{shard}", st.fixed_dictionaries({"d": scalar_in(1, N - 1)}),
          lambda c: o_priv(ctx, c), n // 2, [{"d": d} for d in (1, 2, N - 2, N - 1)] if shard == 0 else ())


def tasks(tier):
    selfcheck()
    curves = tiny_curves(5, 80 if tier == "quick" else 260, need_3mod4=False)
    curves.sort(key=lambda c: -c[2])
    k = 12 if tier == "quick" else 16
    groups = [curves[i::k] for i in range(k)]
    out = [Task(f"tiny-{i}", "t_tiny", curves=g) for i, g in enumerate(groups) if g]
    n = 400 if tier == "quick" else 6000
    for s in range(8 if tier == "quick" else 16):
        out.append(Task(f"real-{s}", "t_real", shard=s, n=n))
    return out
