"""C19 - ECDSA recovery returns the algebraically determined key or refuses."""
from hypothesis import strategies as st

from vf.harness import HarnessError, Task, drive, hx, run_cases_optimized, same_by_name, unhx
from vf.model import kdf, nt, params
from vf.model.secp import SECP
from vf.props._secp_common import patched, substitution_supported, tiny_curves, to_lib
from vf.strategies import scalar_in

RULE = ("(A) ecdsa_raw_recover with the module constants replaced by every prime-order curve "
        "y^2=x^3+b over primes p=3 mod 4: every v in {0,1,26,27,28,29,35,36} x r in [0,P) x s in "
        "[0,N+1] x 7 hashes, outcome compared with an affine model (raise / exact point / "
        "identity) - all distinct, non-trivial unless refused for v alone; (B) real constants, "
        "Hypothesis over structured (v,r,s,hash): non-trivial = accepted case not produced by "
        "ecdsa_raw_sign (arbitrary s, high-s twin, r >= N; s chosen so that the two summands s*R and -z*G are equal, "
        "opposite or +-lambda-multiples of each other, i.e. share or negate their y) or a refusal for a reason other than v")
ASSUMPTIONS = ["affine model and textbook ECDSA in vf/model/secp.py",
               "tiny-curve substitution replaces module attributes at run time; tiny primes are "
               "3 mod 4 because the library's square root is x^((P+1)/4)"]
ENGINE = "exhaustive enumeration on substituted tiny curves + hypothesis on the real curve"
TECHNIQUE = ("exhaustive enumeration of (v, r, s, z) on substituted tiny curves + structured property-based testing (Hypothesis) on the real curve against an independent recovery model")
REQUIRED_LABELS = {t: ["python_-O:cases", "B:accept", "B:raise:v", "B:raise:r=0modN", "B:raise:s=0modN",
                       "B:raise:not_x", "B:accept:r>=N", "B:accept:high_s", "B:accept:summands_related:lambda", "B:accept:summands_related:1",
                       "B:accept:summands_related:-1", "A:accept", "A:identity",
                       "A:raise"] for t in ("quick", "thorough")}
N, P = params.SECP_N, params.SECP_P
VS = (0, 1, 26, 27, 28, 29, 30, 31, 35, 36)
try:
    from cryptography.hazmat.primitives import hashes as _ch
    from cryptography.hazmat.primitives.asymmetric import ec as _cec
    from cryptography.hazmat.primitives.asymmetric.utils import Prehashed, encode_dss_signature
    HAVE_OPENSSL = True
except Exception:  # pragma: no cover
    HAVE_OPENSSL = False


def expected(C, z, v, r, s):
    if v not in (27, 28):
        return ("raise", "v")
    return C.recover(z, r, s, odd=(v == 28))


def judge(ctx, m, C, sub, case, h, v, r, s, tag):
    """Run the library and compare with the model.  Returns the outcome class."""
    z = int.from_bytes(h, "big")
    exp = expected(C, z, v, r, s)
    try:
        got = tuple(m.ecdsa_raw_recover(h, (v, r, s)))
        if sub == "real":
            same_by_name(ctx, sub, case, m.ecdsa_raw_recover, (h, (v, r, s)), got, "ecdsa_raw_recover")
            try:
                got_l = tuple(m.ecdsa_raw_recover(bytearray(h), [v, r, s]))   # list triple, mutable hash
            except TypeError:
                got_l = got                                                    # a stricter type gate is legitimate
            except ValueError as e2:
                got_l = ("raised", str(e2))
            if got_l != got:
                ctx.violation(sub, "container_type", case,
                              f"recover with a list triple / bytearray hash gives {got_l}, with a tuple / bytes {got}")
        raised = None
    except ValueError as e:
        got, raised = None, e
    if exp[0] == "raise":
        if raised is None:
            ctx.violation(sub, "accepted_invalid", case,
                          f"recover(v={v}, r={r}, s={s}) returned {got}; must raise ValueError ({exp[1]})",
                          {"reason": exp[1]})
        ctx.label(f"{tag}:raise")
        ctx.label(f"{tag}:raise:" + {"v": "v", "r=0 mod N": "r=0modN", "s=0 mod N": "s=0modN",
                                      "r not an x coordinate": "not_x"}[exp[1]])
        return "raise:" + exp[1]
    Q = exp[1]
    if raised is not None:
        ctx.violation(sub, "refused_valid", case,
                      f"recover(v={v}, r={r}, s={s}) raised {raised}; expected {to_lib(Q)}")
        return "accept"
    if got != to_lib(Q):
        ctx.violation(sub, "wrong_point", case,
                      f"recover(v={v}, r={r}, s={s}) = {got}; the determined key is {to_lib(Q)}")
    # the defining equation, recomputed; and the other parity must not satisfy it
    n = C.n
    R = C.lift_x(r, odd=(v == 28))
    rhs = C.add(C.mul(R, s % n), C.neg(C.mul(C.g, z % n)))
    if C.mul(Q, r % n) != rhs:
        raise HarnessError("model recover does not satisfy its defining equation")
    if Q is None:
        ctx.label(f"{tag}:identity")
    else:
        if not C.verify(Q, z % n, r % n, s % n):
            raise HarnessError("model: recovered key does not verify the signature")
        ctx.label(f"{tag}:accept")
    return "accept"


# ---- (A) tiny curves --------------------------------------------------------------------------
def o_tiny(ctx, case):
    p, b, n, g = case["p"], case["b"], case["n"], tuple(case["g"])
    with patched(p, b, n, g) as (m, C):
        if "v" in case:
            ctx.ev()
            judge(ctx, m, C, "tiny", case, unhx(case["h"]), case["v"], case["r"], case["s"], "A")
            return
        zs = sorted({0, 1, 2, n - 1, n, n + 1, 2 * n + 3})
        cnt = 0
        for z in zs:
            h = z.to_bytes(32, "big")
            for v in VS:
                for r in range(p):
                    for s in range(n + 2):
                        ctx.ev()
                        sub = {"p": p, "b": b, "n": n, "g": list(g), "h": hx(h), "v": v, "r": r, "s": s}
                        oc = judge(ctx, m, C, "tiny", sub, h, v, r, s, "A")
                        cnt += 1
                        if oc != "raise:v":
                            ctx.nontrivial_bulk(1)
        ctx.subspace(f"ecdsa_raw_recover on y^2=x^3+{b} over GF({p}), order {n}: "
                     f"{len(VS)} v x {p} r x {n + 2} s x {len(zs)} hashes", cnt)
        ctx.sample({"p": p, "b": b, "n": n, "g": list(g), "hashes": zs}, "tiny")


def t_tiny(ctx, curves):
    ok, why = substitution_supported()
    if not ok:
        # the module no longer takes its curve from the substitutable names alone: this tier would report the
        # optimisation, not the property.  The real-curve tier stands on its own.
        ctx.note(f"tiny-curve tier skipped: {why}")
        ctx.label("required_waived:A:")
        ctx.label("tiny_tier_skipped")
        return
    for (p, b, n, g) in curves:
        o_tiny(ctx, {"p": p, "b": b, "n": n, "g": list(g)})


# ---- (B) real constants -----------------------------------------------------------------------
def o_real(ctx, case):
    from py_ecc.secp256k1 import secp256k1 as m
    h, v, r, s = unhx(case["h"]), case["v"], case["r"], case["s"]
    ctx.begin("real", case)
    oc = judge(ctx, m, SECP, "real", case, h, v, r, s, "B")
    nontriv = oc.startswith("raise:") and oc != "raise:v"
    if oc == "accept":
        if r >= N:
            ctx.label("B:accept:r>=N"); nontriv = True
        if (s % N) * 2 > N:
            ctx.label("B:accept:high_s"); nontriv = True
        if case.get("origin") != "honest":
            nontriv = True
        if HAVE_OPENSSL and len(h) == 32 and 1 <= r < N and 1 <= s < N:
            Q = SECP.recover(int.from_bytes(h, "big"), r, s, v == 28)[1]
            if Q is not None:
                pub = _cec.EllipticCurvePublicNumbers(Q[0], Q[1], _cec.SECP256K1()).public_key()
                try:
                    pub.verify(encode_dss_signature(r, s), h, _cec.ECDSA(Prehashed(_ch.SHA256())))
                    ctx.label("B:openssl_verifies")
                except Exception as e:  # noqa
                    raise HarnessError(f"OpenSSL rejects a signature the model accepts: {e!r}")
    if str(case.get("origin", "")).startswith("related") and oc == "accept":
        ctx.label("B:accept:summands_" + case["origin"])
    if nontriv:
        ctx.nontrivial(("real", case["h"], v, r, s))
    ctx.sample(case, "real:" + oc)


ORACLES = {"tiny": o_tiny, "real": o_real}


def _valid_x(k):
    return SECP.mul(SECP.g, k)[0]


def _invalid_x(start):
    x = start % P
    while nt.legendre(x * x * x + 7, P) == 1:
        x = (x + 1) % P
    return x


HEXLIKE = [b"0" * 64, b"f" * 64, b"5" * 64, b"0123456789abcdef" * 4, b"A" * 64, b"deadbeef" * 4, b"ab" * 20, b"12" * 16]
HASHES = HEXLIKE + [b"\x00" * 32, b"\xff" * 32, (N - 1).to_bytes(32, "big"), N.to_bytes(32, "big"),
          (N + 1).to_bytes(32, "big"), P.to_bytes(32, "big"), (2 ** 256 - 1).to_bytes(32, "big"),
          b"", b"\x01"]
S_SPECIAL = [0, 1, 2, (N - 1) // 2, (N + 1) // 2, N - 1, N, N + 1, 2 * N, 2 * N + 5]
LAMS = nt.cube_roots_of_unity(N)
S_SPECIAL += [x for x in nt.endo_scalars(N) if x >= 0][:40]


@st.composite
def s_case(draw):
    h = draw(st.one_of(st.sampled_from(HASHES), st.binary(min_size=32, max_size=32),
                       st.binary(max_size=64)))
    v = draw(st.one_of(st.sampled_from([27, 28, 27, 28]), st.sampled_from(VS)))
    origin = draw(st.sampled_from(["honest", "twin", "valid_x", "valid_x", "invalid_x", "special",
                                   "r_plus_N", "random", "related"]))
    if origin == "related":
        # the two points that recovery adds, s*R and -z*G, in a special relation: equal (c = 1), opposite
        # (c = -1), or images of each other under (x, y) -> (beta x, +-y) (c = +-lambda: same or opposite y,
        # different x)
        k = draw(scalar_in(1, N - 1))
        z = int.from_bytes(h, "big") % N
        if z == 0:
            h = b"\x07" * 32
            z = int.from_bytes(h, "big") % N
        R = SECP.mul(SECP.g, k)
        c = draw(st.sampled_from([1, -1] + LAMS + [-x for x in LAMS]))
        r, s = R[0], c * (-z) * nt.inv_mod(k, N) % N
        v = 27 + R[1] % 2 if draw(st.integers(0, 5)) else v
        return {"h": hx(h), "v": v, "r": r, "s": s, "origin": f"related:{'lambda' if abs(c) > 1 else c}"}
    if origin in ("honest", "twin"):
        d = draw(scalar_in(1, N - 1))
        k = kdf.rfc6979_first_candidate_raw(d.to_bytes(32, "big"), h) % N or 1
        z = int.from_bytes(h, "big")
        R, r, s = SECP.sign_with_k(d, z, k)
        odd = R[1] % 2
        if origin == "twin" or draw(st.booleans()):
            s, odd = N - s, odd ^ 1
        v = 27 + odd if draw(st.integers(0, 9)) else v
        if s == 0 or r == 0:
            s = 1
    elif origin == "valid_x":
        r = _valid_x(draw(scalar_in(1, N - 1)))
        s = draw(st.one_of(st.sampled_from(S_SPECIAL), st.integers(0, 2 * N), st.integers(1, N - 1)))
    elif origin == "invalid_x":
        r = _invalid_x(draw(st.integers(0, P - 1)))
        s = draw(st.one_of(st.sampled_from(S_SPECIAL), st.integers(1, N - 1)))
    elif origin == "special":
        r = draw(st.sampled_from([0, 1, 2, 3, N - 1, N, N + 1, P - 1, P - 2]))
        s = draw(st.one_of(st.sampled_from(S_SPECIAL), st.integers(1, N - 1)))
    elif origin == "r_plus_N":
        # x-coordinates >= N exist only in [N, P): search small offsets above N for a valid one
        r = N + draw(st.integers(0, P - N - 1))
        if draw(st.booleans()):
            while nt.legendre(r * r * r + 7, P) != 1:
                r = N + (r - N + 1) % (P - N)
        s = draw(st.one_of(st.sampled_from(S_SPECIAL), st.integers(1, N - 1)))
    else:
        r = draw(st.integers(0, P - 1))
        s = draw(st.integers(0, 2 ** 260))
    return {"h": hx(h), "v": v, "r": r, "s": s, "origin": origin}


def t_real(ctx, shard, n):
    ex = []
    if shard == 0:
        gx = SECP.g[0]
        for v in VS:
            for r in (0, 1, 2, 4, 6, 7, N - 1, N, N + 1, P - 1, P - N - 1, gx, _invalid_x(5)):
                for s in (0, 1, (N - 1) // 2, (N + 1) // 2, N - 1, N, N + 1):
                    ex.append({"h": hx(HASHES[v % len(HASHES)]), "v": v, "r": r, "s": s, "origin": "grid"})
        for i, c in enumerate([1, -1] + LAMS + [-x for x in LAMS]):
            k, hh = 5 + i, bytes([0x35 + i]) * 32
            Rk = SECP.mul(SECP.g, k)
            ex.append({"h": hx(hh), "v": 27 + Rk[1] % 2, "r": Rk[0],
                       "s": c * (-int.from_bytes(hh, "big")) * nt.inv_mod(k, N) % N,
                       "origin": f"related:{'lambda' if abs(c) > 1 else c}"})
    if shard == 0:
        run_cases_optimized(ctx, "C19", [{"sub": "real", "case": c} for c in ex[::3]])     # and under python -O
    drive(ctx, f"real{shard}", s_case(), lambda c: o_real(ctx, c), n, ex)


def tasks(tier):
    if not (SECP.on_curve(SECP.g) and SECP.mul(SECP.g, N) is None):
        raise HarnessError("secp model broken")
    curves = tiny_curves(5, 60 if tier == "quick" else 110, need_3mod4=True)
    curves.sort(key=lambda c: -c[0] * c[2])
    k = 12 if tier == "quick" else 16
    groups = [curves[i::k] for i in range(k)]
    out = [Task(f"tiny-{i}", "t_tiny", curves=g) for i, g in enumerate(groups) if g]
    n = 200 if tier == "quick" else 8000
    for s in range(16):
        out.append(Task(f"real-{s}", "t_real", shard=s, n=n))
    return out
