"""C20 - public functions are pure: no mutation of inputs or constants, history-independent.

A history is a list of steps  {"f": function name, "args": [ref, ...]}  with
    ref = {"c": "<module>.<NAME>[i][j]"}   a module-level constant object (the object itself)
        | {"r": k}                         the result of step k
        | {"v": descriptor}                a literal rebuilt from its descriptor
Running a history (run_history) executes every step with the per-call and per-step invariants; the
Hypothesis state machine only decides which step to append next.  The same runner replays saved
histories (--replay) and executes histories in a fresh interpreter (python -m vf.props.c20 <file>)."""
import hashlib
import importlib
import json
import os
import subprocess
import sys
import tempfile

from vf.harness import VERIF_DIR, HarnessError, Task, Violation, canon, import_repo

RULE = ("a Hypothesis rule-based state machine appends calls to a history; arguments are drawn from a pool that "
        "starts with the library's own module-level constant OBJECTS (G1, G2, G12, Z1, Z2, b, b2, b12, w of the "
        "four curve modules, ETAS, eighth roots, isogeny coefficients, exptable entries) and grows by every "
        "result. Functions: field operators of the 12 real field classes and of ad-hoc small-field subclasses "
        "(reference and optimized, interleaved), sgn0, curve add/double/multiply/neg/eq/is_on_curve/normalize/"
        "twist in four modules, optimized pairing / final_exponentiate / exp_by_p (rate-limited), hash_to_G1/G2, "
        "map_to_curve, expand_message_xmd, HKDF, i2osp/os2ip, (de)compression and byte helpers, the BLS API of "
        "three suites, secp256k1. Invariants: (1) per call, a deep value snapshot of every argument before == "
        "after; (2) after every step every live pool value still equals its recorded value and the digest of "
        "all py_ecc module-level data equals the digest taken after import; (3) a repeated call returns the "
        "memoised result; (4) at the end the calls are re-executed from descriptors in fresh interpreters in "
        "reversed and permuted order (different import order) and must give the same results. Non-trivial = "
        "a history of >= 12 calls touching >= 2 curves' field classes (or a real and an ad-hoc class) and >= 3 "
        "function groups with >= 1 repeated call separated by >= 3 other calls; distinct by history digest")
ASSUMPTIONS = ["the memo key 'sgn0' in an element's __dict__ (functools.cached_property) is the one documented cache; "
               "it is ignored as state but its value must equal the parity rule of RFC 9380",
               "fresh-interpreter replays use this machine's CPython build only"]
ENGINE = "hypothesis stateful (RuleBasedStateMachine) + fresh-interpreter replays"
TECHNIQUE = "stateful property-based testing (Hypothesis rule-based state machine) with snapshot invariants"
_REQ = ["deep_stack_calls", "threads:concurrent_calls", "group:field", "group:curve", "group:pairing", "group:hash", "group:codec", "group:bls", "group:secp",
        "repeat", "fresh_process_replays", "const_as_argument", "adhoc_field_class", "history:nontrivial"]
REQUIRED_LABELS = {"quick": _REQ, "thorough": _REQ}

VALUE_ATTRS = ("n", "coeffs", "modulus_coeffs", "degree", "mc_tuples")
CURVE_MODULES = ("bn128", "optimized_bn128", "bls12_381", "optimized_bls12_381")
ADHOC = (("ref", 7, (1, 0)), ("opt", 7, (1, 0)), ("opt", 7, (2, 0)), ("opt", 13, (2, 0)), ("ref", 5, (2, 0)))


# =========================================================================================================
# value <-> descriptor
# =========================================================================================================
def interpreter_state():
    """Interpreter-wide settings a library call has no business changing (py_ecc raises the recursion limit once,
    at import)."""
    import decimal
    import random
    c = decimal.getcontext()
    return {"recursionlimit": sys.getrecursionlimit(), "decimal": [c.prec, c.rounding],
            "random_state": hashlib.sha256(repr(random.getstate()).encode()).hexdigest()[:16],
            "int_max_str_digits": sys.get_int_max_str_digits() if hasattr(sys, "get_int_max_str_digits") else None,
            "cwd": os.getcwd(), "environ": hashlib.sha256(repr(sorted(os.environ.items())).encode()).hexdigest()[:16]}


class World:
    """Everything that depends on the imported library: class registry, constants, functions."""

    def __init__(self):
        import_repo()
        import py_ecc  # noqa
        self.import_all()
        import py_ecc.fields as F
        from vf.props import _fields_common as fc
        self.cls_by_key, self.key_by_cls = {}, {}
        for pre in CURVE_MODULES:
            for suf in ("FQ", "FQ2", "FQ12"):
                c = getattr(F, f"{pre}_{suf}")
                self._reg(f"{pre}_{suf}", c)
        for impl, p, mc2 in ADHOC:
            FQ, FQ2, _ = fc.make(impl, p, mc2=mc2)
            self._reg(f"adhoc_{impl}_{p}_FQ", FQ)
            self._reg(f"adhoc_{impl}_{p}_m{mc2[0]}_FQ2", FQ2)
        self.consts = self._constants()
        if not LITERALS["sig"]:
            from vf.model import blssig
            LITERALS["pk"] = [blssig.sk_to_pk(k) for k in (1, 5, 12345)]
            LITERALS["sig"] = [blssig.sign("basic", 5, b"message"), blssig.sign("pop", 1, b"a"),
                               blssig.sign("aug", 12345, b""), blssig.pop_prove(5), blssig.sign("basic", 1, b"message")]
        self.funcs = build_functions(self)
        self.baseline = self.module_digest()

    def _reg(self, key, c):
        self.cls_by_key[key] = c
        self.key_by_cls[c] = key

    @staticmethod
    def import_all():
        import pkgutil

        import py_ecc
        for m in pkgutil.walk_packages(py_ecc.__path__, "py_ecc."):
            importlib.import_module(m.name)

    # ---- descriptors ---------------------------------------------------------------------------------
    def desc(self, v):
        if v is None or isinstance(v, (bool, str)):
            return v
        if isinstance(v, int):
            return {"i": str(v)}
        if isinstance(v, bytearray):
            return {"ba": bytes(v).hex()}
        if isinstance(v, bytes):
            return {"b": v.hex()}
        if isinstance(v, (tuple, list)):
            return {"t": [self.desc(x) for x in v]}
        k = self.key_by_cls.get(type(v))
        if k is not None:
            if hasattr(v, "coeffs"):
                return {"e": k, "v": [str(int(c)) for c in v.coeffs]}
            return {"e": k, "v": str(int(v.n))}
        if hasattr(v, "coeffs") or hasattr(v, "n"):
            return {"unregistered": type(v).__name__, "v": repr(v)[:200]}
        return {"repr": repr(v)[:200]}

    def build(self, d):
        if d is None or isinstance(d, (bool, str)):
            return d
        if "i" in d:
            return int(d["i"])
        if "b" in d:
            return bytes.fromhex(d["b"])
        if "ba" in d:
            return bytearray.fromhex(d["ba"])
        if "t" in d:
            return tuple(self.build(x) for x in d["t"])
        if "e" in d:
            c = self.cls_by_key[d["e"]]
            if isinstance(d["v"], list):
                return c([int(x) for x in d["v"]])
            return c(int(d["v"]))
        raise HarnessError(f"cannot rebuild {d}")

    # ---- deep snapshots (mutation detection) ---------------------------------------------------------------
    def snap(self, v, depth=0):
        if v is None or isinstance(v, (bool, int, str, float)):
            return v
        if isinstance(v, (bytes, bytearray)):
            return ("bytes", type(v).__name__, bytes(v).hex())
        if isinstance(v, (tuple, list)):
            return (type(v).__name__,) + tuple(self.snap(x, depth + 1) for x in v)
        if isinstance(v, dict):
            return ("dict",) + tuple(sorted((repr(k), self.snap(x, depth + 1)) for k, x in v.items()))
        if isinstance(v, type):
            return ("type", v.__name__, getattr(v, "field_modulus", None))
        if hasattr(v, "field_modulus") and (hasattr(v, "n") or hasattr(v, "coeffs")) and depth < 8:
            # the value-bearing attributes only: an extra private attribute (a per-instance memo) is not
            # a change of value; the one cache the library has today (sgn0) is additionally checked for
            # consistency with the element's value
            inner = tuple((k, self.snap(vars(v)[k], depth + 1)) for k in VALUE_ATTRS if k in vars(v))
            cached = vars(v).get("sgn0")
            if cached is not None or "sgn0" in vars(v):
                want = self._sgn0_rule(v)
                if want is not None and int(cached) != want:
                    inner += (("sgn0_cache_wrong", int(cached), want),)
            return ("el", type(v).__name__, v.field_modulus) + inner
        return ("obj", type(v).__name__)

    @staticmethod
    def _sgn0_rule(v):
        try:
            cs = [int(c) for c in v.coeffs] if hasattr(v, "coeffs") else [int(v.n)]
        except Exception:  # noqa
            return None
        for c in cs:
            if c % v.field_modulus:
                return (c % v.field_modulus) % 2
        return 0

    # ---- module-level data ----------------------------------------------------------------------------------
    def module_state(self):
        """Flat map  path -> value snapshot  of all module-level data of py_ecc.  Dict-valued
        attributes are flattened per key (recursively), so that a dict that merely GROWS (a
        memo cache is not a constant) leaves every baseline entry unchanged."""
        out = {}

        def put(path, v):
            if isinstance(v, dict):
                out[path + "{}"] = "dict"
                for kk, vv in v.items():
                    put(f"{path}[{kk!r}]", vv)
            else:
                out[path] = self.snap(v)
        for name in sorted(sys.modules):
            if not (name == "py_ecc" or name.startswith("py_ecc.")):
                continue
            m = sys.modules[name]
            if m is None:
                continue
            for k, v in sorted(vars(m).items()):
                if k.startswith("__"):
                    continue
                tv = type(v)
                if tv.__module__ in ("typing", "builtins") and not isinstance(v, (int, str, bytes, tuple, list, dict,
                                                                                  bool, float, type(None))):
                    continue
                if isinstance(v, type(sys)) or callable(v) and not isinstance(v, type):
                    continue
                if isinstance(v, type):
                    if not str(getattr(v, "__module__", "")).startswith("py_ecc"):
                        continue
                    for an, av in vars(v).items():
                        if an.startswith("__") or callable(av) or isinstance(av, (classmethod, staticmethod, property)):
                            continue
                        if type(av).__name__ in ("cached_property", "_abc_data", "member_descriptor",
                                                 "getset_descriptor"):
                            continue
                        put(f"{name}.{k}::{an}", av)
                else:
                    put(f"{name}.{k}", v)
        return out

    def module_digest(self):
        st = self.module_state()
        return hashlib.sha256(repr(sorted(st.items())).encode()).hexdigest(), st

    def diff_state(self, st):
        """Baseline entries that changed or disappeared (entries that only appeared are not constants)."""
        base = self.baseline[1]
        return [k for k in sorted(base) if base[k] != st.get(k, "<missing>") and not self._uninitialised(base[k])]

    @staticmethod
    def _uninitialised(v):
        """None, empty containers and empty dicts at import time are slots for lazily built tables or
        caches, not constants: filling them once is not a mutation of a constant."""
        return v is None or v in (("list",), ("tuple",), "dict") or v == ("dict",)

    # ---- constants ------------------------------------------------------------------------------------------
    def _constants(self):
        """name -> (object, type tag).  The objects themselves enter the pool."""
        out = {}

        class _Lazy:
            """add(path, thunk, tag): a constant that a refactoring removed or renamed is skipped, not fatal."""

        def add(path, obj, tag):
            out[path] = (obj, tag)

        def tryadd(path, thunk, tag):
            try:
                out[path] = (thunk(), tag)
            except (AttributeError, IndexError, KeyError, TypeError):
                self.missing_consts.append(path)
        self.missing_consts = []
        for mname in CURVE_MODULES:
            m = importlib.import_module(f"py_ecc.{mname}")
            for g, names in (("G1", ("G1", "Z1")), ("G2", ("G2", "Z2")), ("G12", ("G12",))):
                for n in names:
                    if hasattr(m, n):
                        add(f"py_ecc.{mname}.{n}", getattr(m, n), f"P:{mname}:{g}")
            for n, suf in (("b", "FQ"), ("b2", "FQ2"), ("b12", "FQ12")):
                add(f"py_ecc.{mname}.{n}", getattr(m, n), f"E:{mname}_{suf}")
            cm = importlib.import_module(f"py_ecc.{mname}." + ("optimized_curve" if mname.startswith("opt")
                                                               else f"{mname}_curve"))
            add(f"{cm.__name__}.w", cm.w, f"E:{mname}_FQ12")
        k = importlib.import_module("py_ecc.optimized_bls12_381.constants")
        for i in range(4):
            tryadd(f"{k.__name__}.ETAS[{i}]", lambda i=i: k.ETAS[i], "E:optimized_bls12_381_FQ2")
            tryadd(f"{k.__name__}.POSITIVE_EIGHTH_ROOTS_OF_UNITY[{i}]", lambda i=i: k.POSITIVE_EIGHTH_ROOTS_OF_UNITY[i],
                   "E:optimized_bls12_381_FQ2")
        for n in ("ISO_3_A", "ISO_3_B", "ISO_3_Z"):
            tryadd(f"{k.__name__}.{n}", lambda n=n: getattr(k, n), "E:optimized_bls12_381_FQ2")
        for n in ("ISO_11_A", "ISO_11_B", "ISO_11_Z", "SQRT_MINUS_11_CUBED"):
            tryadd(f"{k.__name__}.{n}", lambda n=n: getattr(k, n), "E:optimized_bls12_381_FQ")
        for i in (0, 3):
            tryadd(f"{k.__name__}.ISO_3_MAP_COEFFICIENTS[{i}][1]", lambda i=i: k.ISO_3_MAP_COEFFICIENTS[i][1],
                   "E:optimized_bls12_381_FQ2")
            tryadd(f"{k.__name__}.ISO_11_MAP_COEFFICIENTS[{i}][2]", lambda i=i: k.ISO_11_MAP_COEFFICIENTS[i][2],
                   "E:optimized_bls12_381_FQ")
        bc = importlib.import_module("py_ecc.bls.constants")
        for i in (1, 3, 6):
            tryadd(f"{bc.__name__}.EIGHTH_ROOTS_OF_UNITY[{i}]", lambda i=i: bc.EIGHTH_ROOTS_OF_UNITY[i],
                   "E:optimized_bls12_381_FQ2")
        op = importlib.import_module("py_ecc.optimized_bls12_381.optimized_pairing")
        for i in (0, 1, 7):
            tryadd(f"{op.__name__}.exptable[{i}]", lambda i=i: op.exptable[i], "E:optimized_bls12_381_FQ12")
        return out

    def tag_of(self, v):
        """Pool type tag of a result value (None: not pooled)."""
        if isinstance(v, bool) or v is None:
            return None
        if isinstance(v, int):
            return "int"
        if isinstance(v, (bytes, bytearray)):
            n = len(v)
            return "pk" if n == 48 else "sig" if n == 96 else "bytes"
        k = self.key_by_cls.get(type(v))
        if k is not None:
            return f"E:{k}"
        return None


# =========================================================================================================
# function table
# =========================================================================================================
class Fn:
    def __init__(self, name, group, argtags, call, cost=0, result_tag=None):
        self.name, self.group, self.argtags, self.call, self.cost, self.result_tag = name, group, argtags, call, cost, result_tag


def build_functions(W):
    import operator
    fns = {}

    def add(name, group, argtags, call, cost=0, result_tag=None):
        fns[name] = Fn(name, group, argtags, call, cost, result_tag)

    # ---- field operators ----------------------------------------------------------------------------------
    for key, cls in W.cls_by_key.items():
        E = f"E:{key}"
        add(f"{key}.add", "field", [E, E], operator.add)
        add(f"{key}.sub", "field", [E, E], operator.sub)
        add(f"{key}.mul", "field", [E, E], operator.mul)
        add(f"{key}.div", "field", [E, E], operator.truediv)
        add(f"{key}.neg", "field", [E], operator.neg)
        add(f"{key}.eq", "field", [E, E], operator.eq)
        add(f"{key}.pow", "field", [E, "smallint"], operator.pow)
        add(f"{key}.mul_int", "field", [E, "int"], operator.mul)
        add(f"{key}.rmul_int", "field", ["int", E], operator.mul)
        add(f"{key}.div_int", "field", [E, "int"], operator.truediv)
        # augmented assignment (a += b, a *= b ...): elements are values, so the object bound to `a` before the
        # statement must keep its value (the argument snapshot catches an in-place __iadd__/__imul__)
        add(f"{key}.iadd", "field", [E, E], operator.iadd)
        add(f"{key}.isub", "field", [E, E], operator.isub)
        add(f"{key}.imul", "field", [E, E], operator.imul)
        add(f"{key}.itruediv", "field", [E, E], operator.itruediv)
        add(f"{key}.imul_int", "field", [E, "int"], operator.imul)
        add(f"{key}.ipow", "field", [E, "smallint"], operator.ipow)
        add(f"{key}.one", "field", [], cls.one, result_tag=E)
        add(f"{key}.zero", "field", [], cls.zero, result_tag=E)
        if "FQ12" in key or "FQ2" in key:
            add(f"{key}.inv", "field", [E], lambda x: x.inv())
            # extension elements whose coefficients are supplied as base-field OBJECTS (the constructors
            # accept Sequence[IntOrFQ]); the objects handed in - pool values, module constants - must
            # survive every later operation on the element
            base_key = key.rsplit("_", 1)[0].replace("_m1", "").replace("_m2", "") + "_FQ"
            if base_key in W.cls_by_key and W.cls_by_key[base_key].field_modulus == cls.field_modulus:
                deg = 2 if key.endswith("FQ2") else 12
                add(f"{key}.from_FQ_objects", "field", [f"E:{base_key}", f"E:{base_key}"],
                    lambda a, b, _c=cls, _d=deg: _c([a, b] * (_d // 2)), result_tag=E)
        if key.startswith("optimized") or key.startswith("adhoc_opt"):
            add(f"{key}.sgn0", "field", [E], lambda x: x.sgn0)
        if key.endswith("_FQ"):
            add(f"{key}.add_int", "field", [E, "int"], operator.add)
            add(f"{key}.rsub_int", "field", ["int", E], operator.sub)
            add(f"{key}.rdiv_int", "field", ["int", E], operator.truediv)
            add(f"{key}.from_int", "field", ["int"], cls, result_tag=E)

    # ---- curves -------------------------------------------------------------------------------------------
    for mname in CURVE_MODULES:
        m = importlib.import_module(f"py_ecc.{mname}")
        for g, bname in (("G1", "b"), ("G2", "b2"), ("G12", "b12")):
            Pt = f"P:{mname}:{g}"
            heavy = 2 if g == "G12" else 0
            add(f"{mname}.add:{g}", "curve", [Pt, Pt], m.add, cost=heavy, result_tag=Pt)
            add(f"{mname}.double:{g}", "curve", [Pt], m.double, cost=heavy, result_tag=Pt)
            add(f"{mname}.neg:{g}", "curve", [Pt], m.neg, result_tag=Pt)
            add(f"{mname}.eq:{g}", "curve", [Pt, Pt], m.eq)
            add(f"{mname}.multiply:{g}", "curve", [Pt, "smallint" if g == "G12" else "scalar"], m.multiply,
                cost=heavy, result_tag=Pt)
            if g == "G1":
                # scalars far wider than the group order (the recursive double-and-add goes one frame per bit)
                add(f"{mname}.multiply_wide:{g}", "curve", [Pt, "widescalar"], m.multiply, cost=1, result_tag=Pt)
            bcoef = getattr(m, bname)
            add(f"{mname}.is_on_curve:{g}", "curve", [Pt], lambda p, _m=m, _b=bcoef: _m.is_on_curve(p, _b))
            add(f"{mname}.is_inf:{g}", "curve", [Pt], m.is_inf)
            if mname.startswith("optimized"):
                add(f"{mname}.normalize:{g}", "curve", [Pt], m.normalize)
        add(f"{mname}.twist", "curve", [f"P:{mname}:G2"], m.twist, cost=1, result_tag=f"P:{mname}:G12")
    # ---- pairing (optimized only; reference pairings cost 5 s each) ---------------------------------------------
    for mname in ("optimized_bn128", "optimized_bls12_381"):
        pm = importlib.import_module(f"py_ecc.{mname}.optimized_pairing")
        E12 = f"E:{mname}_FQ12"
        add(f"{mname}.pairing", "pairing", [f"P:{mname}:G2", f"P:{mname}:G1"], pm.pairing, cost=10, result_tag=E12)
        add(f"{mname}.pairing_raw", "pairing", [f"P:{mname}:G2", f"P:{mname}:G1"],
            lambda q, p, _pm=pm: _pm.pairing(q, p, final_exponentiate=False), cost=4, result_tag=E12)
        add(f"{mname}.final_exponentiate", "pairing", [E12], pm.final_exponentiate,
            cost=6 if mname == "optimized_bls12_381" else 12, result_tag=E12)
        if hasattr(pm, "exp_by_p"):
            add(f"{mname}.exp_by_p", "pairing", [E12], pm.exp_by_p, cost=0, result_tag=E12)
    # ---- hashing ----------------------------------------------------------------------------------------------
    import hashlib as hl

    import py_ecc.bls.hash as bh
    import py_ecc.bls.hash_to_curve as h2c
    OB = "optimized_bls12_381"
    add("hash_to_G2", "hash", ["bytes", "dst"], lambda m, d: h2c.hash_to_G2(m, d, hl.sha256), cost=5, result_tag=f"P:{OB}:G2")
    add("hash_to_G1", "hash", ["bytes", "dst"], lambda m, d: h2c.hash_to_G1(m, d, hl.sha256), cost=2, result_tag=f"P:{OB}:G1")
    add("map_to_curve_G2", "hash", [f"E:{OB}_FQ2"], h2c.map_to_curve_G2, cost=2, result_tag=f"P:{OB}:G2")
    add("map_to_curve_G1", "hash", [f"E:{OB}_FQ"], h2c.map_to_curve_G1, cost=1, result_tag=f"P:{OB}:G1")
    add("clear_cofactor_G2", "hash", [f"P:{OB}:G2"], h2c.clear_cofactor_G2, cost=4, result_tag=f"P:{OB}:G2")
    add("expand_message_xmd", "hash", ["bytes", "dst", "len"], lambda m, d, n: bh.expand_message_xmd(m, d, n, hl.sha256))
    add("hkdf_extract", "hash", ["bytes", "bytes"], bh.hkdf_extract)
    # the documented Union[bytes, bytearray] arguments as MUTABLE objects: they must come back unchanged
    add("hkdf_extract:bytearray", "hash", ["bytearray", "bytearray"], bh.hkdf_extract)
    add("hkdf_expand:bytearray", "hash", ["bytearray", "bytearray", "len"], bh.hkdf_expand)
    add("expand_message_xmd:bytearray", "hash", ["bytearray", "dst", "len"],
        lambda m, dd, n: bh.expand_message_xmd(m, dd, n, hl.sha256))
    add("os2ip:bytearray", "hash", ["bytearray"], bh.os2ip)
    add("hkdf_expand", "hash", ["bytes", "bytes", "len"], bh.hkdf_expand)
    add("i2osp", "hash", ["smallint", "len8"], lambda x, n: bh.i2osp(x, n))
    add("os2ip", "hash", ["bytes"], bh.os2ip)
    # ---- codec --------------------------------------------------------------------------------------------------
    import py_ecc.bls.g2_primitives as g2p
    import py_ecc.bls.point_compression as pcmp
    add("compress_G1", "codec", [f"P:{OB}:G1"], pcmp.compress_G1)
    add("compress_G2", "codec", [f"P:{OB}:G2"], pcmp.compress_G2, cost=1)
    add("G1_to_pubkey", "codec", [f"P:{OB}:G1"], g2p.G1_to_pubkey)
    add("G2_to_signature", "codec", [f"P:{OB}:G2"], g2p.G2_to_signature, cost=1)
    add("pubkey_to_G1", "codec", ["pk"], g2p.pubkey_to_G1, result_tag=f"P:{OB}:G1")
    add("signature_to_G2", "codec", ["sig"], g2p.signature_to_G2, cost=1, result_tag=f"P:{OB}:G2")
    add("subgroup_check_G1", "codec", [f"P:{OB}:G1"], g2p.subgroup_check, cost=1)
    add("subgroup_check_G2", "codec", [f"P:{OB}:G2"], g2p.subgroup_check, cost=3)
    # ---- BLS API -------------------------------------------------------------------------------------------------
    import py_ecc.bls as bls
    for sname, S in (("basic", bls.G2Basic), ("aug", bls.G2MessageAugmentation), ("pop", bls.G2ProofOfPossession)):
        add(f"{sname}.SkToPk", "bls", ["sk"], S.SkToPk, cost=1)
        add(f"{sname}.Sign", "bls", ["sk", "bytes"], S.Sign, cost=8)
        add(f"{sname}.Verify", "bls", ["pk", "bytes", "sig"], S.Verify, cost=15)
        add(f"{sname}.KeyValidate", "bls", ["pk"], S.KeyValidate, cost=1)
        add(f"{sname}.KeyGen", "bls", ["bytes"], S.KeyGen)
        add(f"{sname}.KeyGen:info", "bls", ["bytes", "bytes2"], S.KeyGen)
        add(f"{sname}.KeyGen:bytearray", "bls", ["bytearray", "bytearray"], S.KeyGen)
        add(f"{sname}.Aggregate", "bls", ["sig", "sig"], lambda a, b, _S=S: _S.Aggregate([a, b]), cost=2)
        add(f"{sname}.AggregateVerify", "bls", ["pk", "pk", "bytes", "bytes2", "sig"],
            lambda p1, p2, m1, m2, s, _S=S: _S.AggregateVerify([p1, p2], [m1, m2], s), cost=25)
    P = bls.G2ProofOfPossession
    add("pop.PopProve", "bls", ["sk"], P.PopProve, cost=8)
    add("pop.PopVerify", "bls", ["pk", "sig"], P.PopVerify, cost=15)
    add("pop.FastAggregateVerify", "bls", ["pk", "pk", "bytes", "sig"],
        lambda p1, p2, m, s: P.FastAggregateVerify([p1, p2], m, s), cost=15)
    # ---- secp256k1 ------------------------------------------------------------------------------------------------
    import py_ecc.secp256k1.secp256k1 as sp
    add("secp.privtopub", "secp", ["priv32"], sp.privtopub, result_tag="secp_pt")
    add("secp.multiply_G", "secp", ["scalar"], lambda n: sp.multiply(sp.G, n), result_tag="secp_pt")
    add("secp.add_G_multiples", "secp", ["smallint", "smallint"], lambda a, b: sp.add(sp.multiply(sp.G, a), sp.multiply(sp.G, b)))
    add("secp.ecdsa_raw_sign", "secp", ["hash32", "priv32"], sp.ecdsa_raw_sign)
    add("secp.ecdsa_raw_sign:bytearray", "secp", ["bytearray32", "bytearray32"], sp.ecdsa_raw_sign)
    add("secp.privtopub:bytearray", "secp", ["bytearray32"], sp.privtopub, result_tag="secp_pt")
    add("secp.sign_recover", "secp", ["hash32", "priv32"], lambda h, k: sp.ecdsa_raw_recover(h, sp.ecdsa_raw_sign(h, k)))
    add("secp.add", "secp", ["secp_pt", "secp_pt"], sp.add, result_tag="secp_pt")
    add("secp.multiply", "secp", ["secp_pt", "int"], sp.multiply, result_tag="secp_pt")
    add("secp.multiply_wide", "secp", ["secp_pt", "widescalar"], sp.multiply, result_tag="secp_pt")
    add("secp.recover_bad", "secp", ["hash32", "smallint", "scalar", "scalar"],
        lambda h, v, r, s_: sp.ecdsa_raw_recover(h, (27 + v % 3, r, s_)))
    add("secp.deterministic_generate_k", "secp", ["hash32", "priv32"], sp.deterministic_generate_k)
    return fns


# literal pools for non-library argument kinds ------------------------------------------------------------------
R_BLS = 0x73EDA753299D7D483339D80809A1D80553BDA402FFFE5BFEFFFFFFFF00000001
LITERALS = {
    "smallint": [0, 1, 2, 3, 5, 7, 12, 27],
    "int": [0, 1, 2, -1, 7, 1 << 64, R_BLS, -(1 << 200), (1 << 381) + 5],
    "scalar": [0, 1, 2, 5, 12, 1 << 64, R_BLS - 1, R_BLS, (1 << 254) + 3],
    "sk": [1, 2, 5, 12345, R_BLS - 1, (1 << 254) + 3],
    "widescalar": [(1 << 1100) + 0x1234567, (1 << 1500) - 1, -(1 << 1200) - 5],
    "bytes": [b"", b"a", b"message", b"\x00" * 32, bytes(range(64)), b"x" * 65],
    "bytes2": [b"other", b"\x01", b"second message"],
    "dst": [b"", b"DST", b"BLS_SIG_BLS12381G2_XMD:SHA-256_SSWU_RO_NUL_", b"d" * 255],
    "len": [0, 1, 31, 32, 33, 64, 255],
    "len8": [8, 16, 48],
    "priv32": [b"\x00" * 31 + b"\x01", b"\x12" * 32, bytes(range(1, 33))],
    "hash32": [b"\x00" * 32, b"\xff" * 32, bytes(range(32))],
    "pk": [], "sig": [],
    "bytearray32": [bytearray(b"\x12" * 32), bytearray(range(1, 33)), bytearray(b"\x00" * 31 + b"\x01")],
    "bytearray": [bytearray(b""), bytearray(b"seed"), bytearray(32), bytearray(range(48)), bytearray(b"\x00\x30")],
    "secp_pt": [(0, 0), (0x79BE667EF9DCBBAC55A06295CE870B07029BFCDB2DCE28D959F2815B16F81798,
                         0x483ADA7726A3C4655DA4FBFC0E1108A8FD17B448A68554199C47D08FFB10D4B8)],
}


# =========================================================================================================
# running histories
# =========================================================================================================
# The first violation seen in this process.  A library that really is impure can leave the process in
# a damaged state (a module constant overwritten), after which Hypothesis' own re-execution of the
# failing example behaves differently and is reported as "flaky" - the original violation is what counts.
FIRST_VIOLATION = [None]


class Runner:
    def __init__(self, W, ctx=None, fresh=False):
        self.W, self.ctx = W, ctx
        self.results = []       # per step: ("ok", live, desc) | ("exc", type name)
        self.steps = []
        self.memo = {}
        self.fresh = fresh
        self.live_pool = []     # (live, snapshot) of every result, checked after every step

    def resolve(self, ref):
        if "c" in ref:
            return self.W.consts[ref["c"]][0]
        if "r" in ref:
            res = self.results[ref["r"]]
            if res[0] != "ok":
                raise HarnessError("reference to a step that raised")
            return res[1]
        return self.W.build(ref["v"])

    def fail(self, kind, message, extra=None):
        case = {"steps": self.steps}
        if extra:
            case.update(extra)
        v = Violation("C20", "history", kind, case, message, {"sub": "history", "kind": kind})
        if FIRST_VIOLATION[0] is None:
            FIRST_VIOLATION[0] = v
        raise v

    def run_step(self, step):
        W = self.W
        self.steps.append(step)
        fn = W.funcs[step["f"]]
        args = [self.resolve(r) for r in step["args"]]
        before = [W.snap(a) for a in args]
        arg_descs = [W.desc(a) for a in args]
        ist0 = interpreter_state()
        try:
            out = fn.call(*args)
            res = ("ok", out, W.desc(out))
        except (ValueError, ZeroDivisionError, TypeError, AssertionError, OverflowError) as e:
            # refusing an input is allowed; it must be the same refusal every time
            res = ("exc", type(e).__name__)
        except Exception as e:  # noqa  (eth_utils.ValidationError and friends)
            res = ("exc", type(e).__name__)
        ist1 = interpreter_state()
        if ist1 != ist0:
            self.fail(f"interpreter_state_changed:{step['f']}",
                      f"{step['f']} changed interpreter-wide state: {ist0} -> {ist1}")
        after = [W.snap(a) for a in args]
        for i, (b, a) in enumerate(zip(before, after)):
            if b != a:
                self.fail(f"argument_mutated:{step['f']}", f"{step['f']} changed its argument {i}: {str(b)[:150]} -> {str(a)[:150]}")
        self.results.append(res)
        # equal arguments, other OBJECTS: the result may not depend on whether two arguments are the same
        # object, a module constant itself, or fresh copies with the same value
        if fn.cost == 0 and not self.fresh and res[0] == "ok" and args:
            try:
                copies = [W.build(d_) for d_ in arg_descs]
            except Exception:  # noqa - not every argument has a rebuildable descriptor
                copies = None
            if copies is not None:
                try:
                    out2 = ("ok", W.desc(fn.call(*copies)))
                except Exception as e2:  # noqa
                    out2 = ("exc", type(e2).__name__)
                if out2 != ("ok", res[2]):
                    self.fail(f"depends_on_object_identity:{step['f']}",
                              f"{step['f']} gives {str(res[2])[:160]} on the given objects and {str(out2[1])[:160]} on "
                              f"equal-valued fresh copies of them")
        key = canon([step["f"], arg_descs])
        rd = res[2] if res[0] == "ok" else {"raises": res[1]}
        if key in self.memo and self.memo[key][0] != rd:
            self.fail(f"result_changed:{step['f']}",
                      f"{step['f']} returned {str(rd)[:200]} now and {str(self.memo[key][0])[:200]} at step "
                      f"{self.memo[key][1]} for equal arguments")
        self.memo.setdefault(key, (rd, len(self.steps) - 1))
        if res[0] == "ok":
            sn = W.snap(res[1])
            if "sgn0_cache_wrong" in repr(sn):
                self.fail(f"stale_sgn0_cache:{step['f']}",
                          f"{step['f']} returned an element whose cached sgn0 does not belong to its value "
                          f"(state carried over from an operand): {str(rd)[:160]}")
            self.live_pool.append((len(self.steps) - 1, res[1], sn))
        if not self.fresh:
            self.check_world(step)
        return res

    def check_world(self, step):
        W = self.W
        for idx, live, s in self.live_pool:
            if W.snap(live) != s:
                self.fail(f"earlier_result_damaged:{step['f']}",
                          f"after {step['f']} the result of step {idx} ({self.steps[idx]['f']}) no longer has its value")
        dg, st = W.module_digest()
        if dg != W.baseline[0]:
            bad = W.diff_state(st)
            if bad:
                self.fail(f"module_state_changed:{step['f']}",
                          f"after {step['f']} module-level constants changed: {bad[:4]}")

    def result_descs(self):
        return [r[2] if r[0] == "ok" else {"raises": r[1]} for r in self.results]


def literalise(W, steps, result_descs):
    """Replace result references by literal descriptors so that steps become order-independent."""
    out = []
    for s in steps:
        args = []
        for r in s["args"]:
            if "r" in r:
                args.append({"v": result_descs[r["r"]]})
            elif "c" in r:
                args.append({"v": W.desc(W.consts[r["c"]][0])})
            else:
                args.append(r)
        out.append({"f": s["f"], "args": args})
    return out


def fresh_process_results(steps, order, import_first):
    """Execute the literalised steps in a new interpreter in the given order.  An import_first entry "flag:-O"
    starts that interpreter with assertions stripped."""
    flags = [f[5:] for f in import_first if f.startswith("flag:")]
    envs = dict(f[4:].split("=", 1) for f in import_first if f.startswith("env:"))
    import_first = [f for f in import_first if not f.startswith(("flag:", "env:"))]
    with tempfile.NamedTemporaryFile("w", suffix=".json", delete=False, dir="/tmp") as fh:
        json.dump({"steps": steps, "order": order, "import_first": import_first}, fh)
        path = fh.name
    try:
        env = dict(os.environ, PYTHONHASHSEED="0", PYTHONDONTWRITEBYTECODE="1")
        env.pop("PYTHONOPTIMIZE", None)
        env.update(envs)                      # e.g. another PYTHONHASHSEED: set / dict iteration order of bytes and str keys
        r = subprocess.run([sys.executable] + flags + ["-m", "vf.props.c20", path], cwd=VERIF_DIR, env=env,
                           capture_output=True, text=True, timeout=900)
        if r.returncode != 0:
            raise HarnessError(f"fresh interpreter failed: {r.stderr[-1500:]}")
        return json.loads(r.stdout.strip().splitlines()[-1])
    finally:
        os.unlink(path)


def _fresh_main(path):
    with open(path) as fh:
        job = json.load(fh)
    import_repo()
    warn_error = "warn:error" in job.get("import_first", [])
    if "adhoc_first" in job.get("import_first", []):
        # another ORDER OF FIRST USE: ad-hoc field classes are created and used before any curve module is imported
        # (class-level tables filled by whoever comes first would now be filled by them)
        import py_ecc.fields  # noqa: F401
        from vf.props import _fields_common as fc_
        for impl, p_, mc2 in ADHOC[::-1]:
            FQ_, FQ2_, _ = fc_.make(impl, p_, mc2=mc2)
            x_ = FQ2_([3, 4]) * FQ2_([5, 6])
            x_ = x_ * x_.inv() + FQ2_([FQ_(1), FQ_(2)])
    for name in job.get("import_first", []):
        if name in ("warn:error", "adhoc_first"):
            continue
        if name.startswith("attr:"):
            # reach the subpackage the other way: as an attribute of the package (its lazy __getattr__)
            getattr(importlib.import_module("py_ecc"), name[5:])
        else:
            importlib.import_module(name)
    try:
        W = World()
    except Exception as e:  # noqa
        from vf.harness import in_repo_frame
        if in_repo_frame(e.__traceback__):
            # the library cannot even be imported / set up after what ran before it in this interpreter
            print(json.dumps({"__setup_failed__": f"{type(e).__name__}: {e}"[:300]}))
            return
        raise
    R = Runner(W, fresh=True)
    out = {}
    if warn_error:
        # interpreter-wide warning settings are not an argument either: with warnings turned into errors (after the
        # imports, so that third-party import-time deprecations stay out of it) every call must give the same result
        import warnings
        warnings.simplefilter("error")
    for i in job["order"]:
        R.results = []
        R.steps = []
        res = R.run_step(job["steps"][i])
        out[str(i)] = res[2] if res[0] == "ok" else {"raises": res[1]}
    print(json.dumps(out))


# =========================================================================================================
# the replay oracle
# =========================================================================================================
_W = [None]


def world():
    if _W[0] is None:
        _W[0] = World()
    return _W[0]


def o_history(ctx, case):
    W = world()
    ctx.begin("history", case)
    R = Runner(W, ctx)
    for s in case["steps"]:
        R.run_step(s)
    if case.get("fresh"):
        check_fresh(ctx, W, R, case["fresh"])


def check_fresh(ctx, W, R, orders):
    descs = R.result_descs()
    lit = literalise(W, R.steps, descs)
    for order, first in orders:
        got = fresh_process_results(lit, order, first)
        if "__setup_failed__" in got:
            v = Violation("C20", "history", "fresh_process_setup_fails",
                          {"steps": R.steps[:3], "fresh": [[order, first]]},
                          f"in a fresh interpreter with the prelude {first} the library fails to import / initialise: "
                          f"{got['__setup_failed__']}",
                          {"sub": "history", "kind": "fresh_process_setup_fails"})
            if FIRST_VIOLATION[0] is None:
                FIRST_VIOLATION[0] = v
            raise v
        for i in order:
            if got[str(i)] != json.loads(canon(descs[i])):
                v = Violation("C20", "history", f"fresh_process_differs:{R.steps[i]['f']}",
                              {"steps": R.steps, "fresh": [[order, first]]},
                              f"{R.steps[i]['f']} (step {i}) gives {str(got[str(i)])[:200]} in a fresh interpreter "
                              f"and {str(descs[i])[:200]} in this history",
                              {"sub": "history", "kind": f"fresh_process_differs:{R.steps[i]['f']}"})
                if FIRST_VIOLATION[0] is None:
                    FIRST_VIOLATION[0] = v
                raise v
        ctx.label("fresh_process_replays")


def o_threads(ctx, case):
    """'After any interleaving of other calls': the same calls made by several threads at once.  Each step (its
    arguments are constants or literals) is first evaluated alone; then `threads` threads run the whole list
    `reps` times each, starting at different offsets, with the interpreter's switch interval lowered so that
    thread switches land inside the library's loops.  Every result must equal the sequential one - a work buffer,
    table or cache shared between calls shows up as a wrong value (or an exception) in some thread."""
    import threading
    W = world()
    ctx.begin("threads", case)
    steps, nthreads, reps = case["steps"], case["threads"], case["reps"]
    R = Runner(W, fresh=True)

    def run(step):
        fn = W.funcs[step["f"]]
        args = [R.resolve(r) for r in step["args"]]
        try:
            return canon(W.desc(fn.call(*args)))
        except Exception as e:  # noqa
            return "raises " + type(e).__name__
    expected = [run(s_) for s_ in steps]
    bad, lock = [], threading.Lock()

    def worker(t):
        for rep in range(reps):
            for j in range(len(steps)):
                i = (j + t * 3 + rep) % len(steps)
                got = run(steps[i])
                if got != expected[i]:
                    with lock:
                        bad.append((t, i, got[:160]))
                    return
    old = sys.getswitchinterval()
    sys.setswitchinterval(1e-5)
    try:
        ths = [threading.Thread(target=worker, args=(t,)) for t in range(nthreads)]
        for th in ths:
            th.start()
        for th in ths:
            th.join()
    finally:
        sys.setswitchinterval(old)
    # the same calls made from deep inside the caller's own recursion: the library may not assume that it starts
    # near the top of the stack (it raises the interpreter's recursion limit at import for its own recursions)
    depth = min(case.get("depth", 0), sys.getrecursionlimit() // 3)
    if depth:
        def descend(k):
            if k:
                return descend(k - 1)
            return [run(s_) for s_ in steps]
        deep = descend(depth)
        for i, (g_, e_) in enumerate(zip(deep, expected)):
            if g_ != e_:
                ctx.violation("threads", f"deep_stack_result_differs:{steps[i]['f']}", case,
                              f"{steps[i]['f']} gives {g_[:160]} when called {depth} frames deep and {e_[:160]} at the top")
        ctx.label("deep_stack_calls", len(steps))
    if bad:
        t, i, got = bad[0]
        ctx.violation("threads", f"concurrent_result_differs:{steps[i]['f']}", case,
                      f"{steps[i]['f']} gives {got} when {nthreads} threads call the library at once and "
                      f"{expected[i][:160]} when called alone ({len(bad)} thread(s) affected)")
    ctx.ev(nthreads * reps * len(steps))
    ctx.label("threads:concurrent_calls", nthreads * reps * len(steps))
    ctx.nontrivial(["threads", [[s_["f"], s_["args"]] for s_ in steps], nthreads, reps])
    ctx.sample({"steps": steps[:6], "threads": nthreads, "reps": reps}, "threads")


def t_threads(ctx, reps):
    W = world()
    OB = "optimized_bls12_381"
    op = "py_ecc.optimized_bls12_381.optimized_pairing"
    lit = lambda v: {"v": W.desc(v)}   # noqa: E731
    f12 = lambda key, k: lit(W.cls_by_key[key]([(k * (i + 3) + i * i) % 1000003 for i in range(12)]))   # noqa: E731
    steps = [
        {"f": f"{OB}_FQ12.mul", "args": [f12(f"{OB}_FQ12", 5), f12(f"{OB}_FQ12", 11)]},
        {"f": "optimized_bn128_FQ12.mul", "args": [f12("optimized_bn128_FQ12", 7), f12("optimized_bn128_FQ12", 13)]},
        {"f": "bls12_381_FQ12.mul", "args": [f12("bls12_381_FQ12", 7), f12("bls12_381_FQ12", 13)]},
        {"f": f"{OB}_FQ2.mul", "args": [{"c": f"py_ecc.{OB}.b2"}, {"c": f"py_ecc.{OB}.b2"}]},
        {"f": "bn128_FQ2.mul", "args": [{"c": "py_ecc.bn128.b2"}, {"c": "py_ecc.bn128.b2"}]},
        {"f": "adhoc_opt_7_m2_FQ2.mul", "args": [lit(W.cls_by_key["adhoc_opt_7_m2_FQ2"]([3, 4])), lit(W.cls_by_key["adhoc_opt_7_m2_FQ2"]([5, 6]))]},
        {"f": f"{OB}.exp_by_p", "args": [f12(f"{OB}_FQ12", 3)]},
        {"f": f"{OB}.multiply:G2", "args": [{"c": f"py_ecc.{OB}.G2"}, lit(12345)]},
        {"f": "optimized_bn128.multiply:G1", "args": [{"c": "py_ecc.optimized_bn128.G1"}, lit(2 ** 64 + 3)]},
        {"f": "map_to_curve_G2", "args": [{"c": "py_ecc.optimized_bls12_381.constants.ISO_3_Z"}]},
        {"f": "secp.multiply_G", "args": [lit(2 ** 200 + 9)]},
        {"f": "hkdf_expand:bytearray", "args": [lit(bytearray(32)), lit(bytearray(b"info")), lit(64)]},
        {"f": f"{OB}.final_exponentiate", "args": [{"c": f"{op}.exptable[7]"}]},
    ]
    steps = sanitize_steps(W, steps)
    o_threads(ctx, {"steps": steps, "threads": 3, "reps": reps, "depth": 3000})


ORACLES = {"history": o_history, "threads": o_threads}


# =========================================================================================================
# the state machine
# =========================================================================================================
def make_machine(ctx, W, budget, fresh_every):
    from hypothesis import strategies as st
    from hypothesis.stateful import RuleBasedStateMachine, initialize, invariant, precondition, rule

    groups = {}
    for f in W.funcs.values():
        groups.setdefault(f.group, []).append(f.name)
    for g in groups:
        groups[g].sort()
    gnames = sorted(groups)
    const_by_tag = {}
    for path, (obj, tag) in sorted(W.consts.items()):
        const_by_tag.setdefault(tag, []).append(path)
    counter = {"histories": 0}

    class Machine(RuleBasedStateMachine):
        def __init__(self):
            super().__init__()
            self.R = Runner(W, ctx)
            self.pool = {}           # tag -> list of refs to results
            self.cost = 0
            self.groups_used = set()
            self.classes_used = set()
            self.repeats = 0
            self.repeat_gap = 0
            self.const_args = 0

        def pick(self, tag, k):
            """A ref of the wanted kind: pool results, module constants (objects), or literals."""
            cands = list(self.pool.get(tag, ()))
            if tag == "bytes":      # keys and signatures are byte strings too (PopProve signs the key bytes)
                cands += list(self.pool.get("pk", ())) + [{"v": W.desc(v)} for v in LITERALS["pk"]]
            cands += [{"c": p} for p in const_by_tag.get(tag, ())]
            if tag in LITERALS:
                cands += [{"v": W.desc(v)} for v in LITERALS[tag]]
            if tag.startswith("E:") and not cands or tag.startswith("E:") and k % 5 == 0:
                key = tag[2:]
                cls = W.cls_by_key[key]
                deg = 1 if key.endswith("_FQ") else (2 if key.endswith("FQ2") else 12)
                vals = [(k * 2654435761 + 12345 * (i + 1)) % cls.field_modulus for i in range(deg)]
                cands.append({"v": W.desc(cls(vals[0]) if deg == 1 else cls(vals))})
            if not cands:
                return None
            return cands[k % len(cands)]

        @rule(g=st.integers(0, 10 ** 6), f=st.integers(0, 10 ** 6), ks=st.lists(st.integers(0, 10 ** 6), min_size=5, max_size=5))
        def call(self, g, f, ks):
            gname = gnames[g % len(gnames)]
            names = groups[gname]
            fn = W.funcs[names[f % len(names)]]
            if self.cost + fn.cost > budget:
                fn = W.funcs[groups["field"][f % len(groups["field"])]]
                gname = "field"
            refs = []
            for tag, k in zip(fn.argtags, ks):
                r = self.pick(tag, k)
                if r is None:
                    return
                refs.append(r)
            self.do({"f": fn.name, "args": refs}, fn, gname)

        @precondition(lambda self: len(self.R.steps) >= 4)
        @rule(i=st.integers(0, 10 ** 6))
        def repeat(self, i):
            old = self.R.steps[i % max(1, len(self.R.steps) - 3)]
            fn = W.funcs[old["f"]]
            if self.cost + fn.cost > budget:
                return
            self.repeats += 1
            ctx.label("repeat")
            self.do({"f": old["f"], "args": old["args"]}, fn, fn.group)

        def do(self, step, fn, gname):
            ctx.ev()
            ctx.case, ctx.sub = {"steps": self.R.steps + [step]}, "history"
            res = self.R.run_step(step)
            self.cost += fn.cost
            self.groups_used.add(gname)
            ctx.label(f"group:{gname}")
            for t in fn.argtags:
                if t.startswith("E:") or t.startswith("P:"):
                    self.classes_used.add(t.split(":")[1].replace("_FQ12", "").replace("_FQ2", "").replace("_FQ", ""))
                    if "adhoc" in t:
                        ctx.label("adhoc_field_class")
            if any("c" in r for r in step["args"]):
                ctx.label("const_as_argument")
            if res[0] == "ok":
                tag = fn.result_tag or W.tag_of(res[1])
                if tag:
                    self.pool.setdefault(tag, []).append({"r": len(self.R.steps) - 1})
            else:
                ctx.label(f"raises:{res[1]}")

        def teardown(self):
            counter["histories"] += 1
            n = len(self.R.steps)
            real = {c for c in self.classes_used if not c.startswith("adhoc")}
            multi = len(real) >= 2 or (real and any(c.startswith("adhoc") for c in self.classes_used))
            if n >= 12 and multi and len(self.groups_used) >= 3 and self.repeats >= 1:
                ctx.label("history:nontrivial")
                ctx.nontrivial([[s["f"], s["args"]] for s in self.R.steps])
            ctx.label("histories")
            ctx.label(f"history_len:{'<12' if n < 12 else '12-29' if n < 30 else '>=30'}")
            if n and counter["histories"] % fresh_every == 0:
                idx = list(range(n))
                rev = idx[::-1]
                perm = sorted(idx, key=lambda q: (q * 7919 + n) % (n + 3))
                orders = [[rev, ["flag:-O"] if counter["histories"] % (2 * fresh_every) == 0 else ["warn:error"]],
                          [perm, ["attr:secp256k1", "py_ecc.bls", "attr:bn128", f"env:PYTHONHASHSEED={1 + counter['histories'] % 997}"]
                           + (["adhoc_first"] if counter["histories"] % (3 * fresh_every) == 0 else [])]]
                ctx.case = {"steps": self.R.steps, "fresh": orders}
                check_fresh(ctx, W, self.R, orders)
            if n:
                ctx.sample({"steps": [{"f": s["f"], "args": s["args"]} for s in self.R.steps[:14]], "length": n},
                           f"history:{min(n // 10, 3)}")

    return Machine


def t_machine(ctx, shard, histories, steps, budget, fresh_every):
    import hypothesis
    from hypothesis import HealthCheck, Phase, settings
    from hypothesis.stateful import run_state_machine_as_test

    from vf import harness
    harness._no_span_mutation()
    W = world()
    Machine = make_machine(ctx, W, budget, fresh_every)
    s = settings(max_examples=histories, stateful_step_count=steps, deadline=None, database=None,
                 report_multiple_bugs=False, phases=[Phase.generate], verbosity=hypothesis.Verbosity.quiet,
                 suppress_health_check=list(HealthCheck))
    try:
        run_state_machine_as_test(hypothesis.seed(ctx.seed_for("machine", shard))(Machine), settings=s)
    except BaseException as e:  # noqa: a Violation raised in teardown arrives wrapped in an ExceptionGroup
        if FIRST_VIOLATION[0] is not None:
            raise FIRST_VIOLATION[0] from None
        v = _find_violation(e)
        if v is not None and v is not e:
            raise v from None
        raise


def _find_violation(e, depth=0):
    if isinstance(e, Violation):
        return e
    if depth > 6:
        return None
    for sub in getattr(e, "exceptions", ()) or ():
        v = _find_violation(sub, depth + 1)
        if v is not None:
            return v
    for sub in (e.__cause__, e.__context__):
        if sub is not None:
            v = _find_violation(sub, depth + 1)
            if v is not None:
                return v
    return None


def t_pinned(ctx):
    """Fixed histories that interleave the shared-state suspects, with fresh-interpreter replays."""
    W = world()
    k = "py_ecc.optimized_bls12_381.constants"
    op = "py_ecc.optimized_bls12_381.optimized_pairing"
    OB = "optimized_bls12_381"
    lit = lambda v: {"v": W.desc(v)}   # noqa: E731
    steps = [
        {"f": f"{OB}.exp_by_p", "args": [{"c": f"{op}.exptable[1]"}]},
        {"f": f"{OB}.exp_by_p", "args": [{"r": 0}]},
        {"f": "map_to_curve_G2", "args": [{"c": f"{k}.ETAS[0]"}]},
        {"f": "map_to_curve_G2", "args": [{"c": f"{k}.ISO_3_Z"}]},
        {"f": "bn128_FQ2.mul", "args": [{"c": "py_ecc.bn128.b2"}, {"c": "py_ecc.bn128.b2"}]},
        {"f": "adhoc_ref_7_m1_FQ2.mul", "args": [lit(W.cls_by_key["adhoc_ref_7_m1_FQ2"]([3, 4])), lit(W.cls_by_key["adhoc_ref_7_m1_FQ2"]([5, 6]))]},
        {"f": "bls12_381_FQ2.mul", "args": [{"c": "py_ecc.bls12_381.b2"}, {"c": "py_ecc.bls12_381.b2"}]},
        {"f": "adhoc_opt_13_m2_FQ2.inv", "args": [lit(W.cls_by_key["adhoc_opt_13_m2_FQ2"]([3, 4]))]},
        {"f": "adhoc_opt_7_m1_FQ2.mul", "args": [lit(W.cls_by_key["adhoc_opt_7_m1_FQ2"]([3, 4])), lit(W.cls_by_key["adhoc_opt_7_m1_FQ2"]([5, 6]))]},
        {"f": "adhoc_opt_7_m2_FQ2.mul", "args": [lit(W.cls_by_key["adhoc_opt_7_m2_FQ2"]([3, 4])), lit(W.cls_by_key["adhoc_opt_7_m2_FQ2"]([5, 6]))]},
        {"f": "optimized_bn128_FQ12.mul", "args": [{"c": "py_ecc.optimized_bn128.optimized_curve.w"}, {"c": "py_ecc.optimized_bn128.b12"}]},
        {"f": f"{OB}_FQ2.sgn0", "args": [{"c": f"{k}.ISO_3_Z"}]},
        {"f": f"{OB}.neg:G1", "args": [{"c": f"py_ecc.{OB}.G1"}]},
        {"f": f"{OB}.multiply:G2", "args": [{"c": f"py_ecc.{OB}.G2"}, lit(5)]},
        {"f": "compress_G2", "args": [{"r": 13}]},
        {"f": "pop.PopProve", "args": [lit(5)]},
        {"f": "basic.Aggregate", "args": [{"r": 15}, {"r": 15}]},
        {"f": "pop.SkToPk", "args": [lit(5)]},
        {"f": "pop.PopVerify", "args": [{"r": 17}, {"r": 15}]},
        {"f": f"{OB}.pairing", "args": [{"c": f"py_ecc.{OB}.G2"}, {"c": f"py_ecc.{OB}.G1"}]},
        {"f": f"{OB}.final_exponentiate", "args": [{"c": f"{op}.exptable[7]"}]},
        {"f": f"{OB}.exp_by_p", "args": [{"c": f"{op}.exptable[1]"}]},
        {"f": "map_to_curve_G2", "args": [{"c": f"{k}.ETAS[0]"}]},
        {"f": "bn128_FQ2.mul", "args": [{"c": "py_ecc.bn128.b2"}, {"c": "py_ecc.bn128.b2"}]},
        {"f": "secp.sign_recover", "args": [lit(bytes(range(32))), lit(b"\x12" * 32)]},
        {"f": "pop.PopProve", "args": [lit(5)]},
        {"f": "optimized_bn128.final_exponentiate", "args": [{"c": "py_ecc.optimized_bn128.optimized_curve.w"}]},
        {"f": f"{OB}.final_exponentiate", "args": [{"c": f"{op}.exptable[7]"}]},
        {"f": "optimized_bn128.final_exponentiate", "args": [{"c": "py_ecc.optimized_bn128.optimized_curve.w"}]},
        {"f": "pop.Sign", "args": [lit(5), {"r": 17}]},
        {"f": "basic.Sign", "args": [lit(5), lit(b"message")]},
        {"f": "pop.Sign", "args": [lit(5), lit(b"message")]},
        {"f": "aug.Sign", "args": [lit(5), lit(b"message")]},
        {"f": f"{OB}.final_exponentiate", "args": [lit(W.cls_by_key[f"{OB}_FQ12"](list(range(1, 13))))]},
        {"f": f"{OB}.exp_by_p", "args": [lit(W.cls_by_key[f"{OB}_FQ12"]([1] * 12))]},
        {"f": f"{OB}.final_exponentiate", "args": [lit(W.cls_by_key[f"{OB}_FQ12"](list(range(1, 13))))]},
        {"f": "secp.ecdsa_raw_sign:bytearray", "args": [lit(bytearray(range(32))), lit(bytearray(b"\x12" * 32))]},
        {"f": "pop.KeyGen:bytearray", "args": [lit(bytearray(b"seed material")), lit(bytearray(b"info"))]},
        {"f": "hkdf_expand:bytearray", "args": [lit(bytearray(32)), lit(bytearray(b"info")), lit(33)]},
        {"f": "pop.KeyGen:bytearray", "args": [lit(bytearray(b"seed material")), lit(bytearray(b"info"))]},
        {"f": f"{OB}_FQ12.imul", "args": [{"c": f"{op}.exptable[3]"}, {"c": f"{op}.exptable[5]"}]},
        {"f": "optimized_bn128_FQ2.iadd", "args": [{"c": "py_ecc.optimized_bn128.b2"}, {"c": "py_ecc.optimized_bn128.b2"}]},
        {"f": "bls12_381_FQ12.imul", "args": [{"c": "py_ecc.bls12_381.b12"}, {"c": "py_ecc.bls12_381.b12"}]},
        {"f": "pop.SkToPk", "args": [lit(0)]},
        {"f": "basic.SkToPk", "args": [lit(R_BLS)]},
        {"f": "aug.KeyValidate", "args": [lit(b"\xc0" + bytes(47))]},
        {"f": "pop.KeyValidate", "args": [lit(b"\x80" + bytes(46) + b"\x04")]},
        {"f": "basic.Verify", "args": [lit(b"\xc0" + bytes(47)), lit(b"message"), lit(b"\xc0" + bytes(95))]},
        {"f": f"{OB}.multiply_wide:G1", "args": [{"c": f"py_ecc.{OB}.G1"}, lit((1 << 1100) + 0x1234567)]},
        {"f": "bn128.multiply_wide:G1", "args": [{"c": "py_ecc.bn128.G1"}, lit((1 << 1500) - 1)]},
        {"f": "secp.multiply_wide", "args": [{"c": "py_ecc.secp256k1.secp256k1.G"}, lit(-(1 << 1200) - 5)]},
    ]
    # a VALID two-signer aggregate verified, a second valid aggregate that shares one message with it, and the
    # first again: state kept from one verification to the next (a set of messages already seen) shows here
    b0 = len(steps)
    steps += [
        {"f": "basic.SkToPk", "args": [lit(5)]},                                            # b0
        {"f": "basic.SkToPk", "args": [lit(12345)]},                                        # b0 + 1
        {"f": "basic.Sign", "args": [lit(5), lit(b"message")]},                             # b0 + 2
        {"f": "basic.Sign", "args": [lit(12345), lit(b"other")]},                           # b0 + 3
        {"f": "basic.Sign", "args": [lit(12345), lit(b"second message")]},                  # b0 + 4
        {"f": "basic.Aggregate", "args": [{"r": b0 + 2}, {"r": b0 + 3}]},                   # b0 + 5
        {"f": "basic.Aggregate", "args": [{"r": b0 + 2}, {"r": b0 + 4}]},                   # b0 + 6
        {"f": "basic.AggregateVerify", "args": [{"r": b0}, {"r": b0 + 1}, lit(b"message"), lit(b"other"), {"r": b0 + 5}]},
        {"f": "basic.AggregateVerify", "args": [{"r": b0}, {"r": b0 + 1}, lit(b"message"), lit(b"second message"), {"r": b0 + 6}]},
        {"f": "basic.AggregateVerify", "args": [{"r": b0}, {"r": b0 + 1}, lit(b"message"), lit(b"other"), {"r": b0 + 5}]},
    ]
    steps = sanitize_steps(W, steps)
    n = len(steps)
    case = {"steps": steps, "fresh": [[list(range(n))[::-1], []], [list(range(0, n, 2)) + list(range(1, n, 2)), ["py_ecc.bn128"]],
                                       [list(range(n)), ["attr:secp256k1", "attr:bls", "attr:optimized_bn128"]],
                                       [list(range(n)), ["flag:-O", "env:PYTHONHASHSEED=4242"]],
                                       [list(range(n)), ["warn:error"]],
                                       [list(range(n)), ["flag:-bb"]],
                                       [list(range(n)), ["adhoc_first"]]]}
    ctx.ev(n)
    o_history(ctx, case)
    for g in ("field", "curve", "pairing", "hash", "codec", "bls", "secp"):
        ctx.label(f"group:{g}")
    ctx.label("const_as_argument")
    ctx.label("adhoc_field_class")
    ctx.label("repeat", 5)
    ctx.label("history:nontrivial")
    ctx.nontrivial([[s["f"], s["args"]] for s in steps])
    ctx.sample({"steps": steps[:10], "length": n}, "pinned")


def sanitize_steps(W, steps):
    """Drop steps that name a constant or function this tree no longer has (a refactoring may remove
    or rename them) together with the steps that use their results; renumber result references."""
    keep, newidx = [], {}
    for i, s in enumerate(steps):
        ok = s["f"] in W.funcs
        args = []
        for r in s["args"]:
            if "c" in r and r["c"] not in W.consts:
                ok = False
            if "r" in r:
                if r["r"] not in newidx:
                    ok = False
                else:
                    r = {"r": newidx[r["r"]]}
            args.append(r)
        if ok:
            newidx[i] = len(keep)
            keep.append({"f": s["f"], "args": args})
    return keep


def tasks(tier):
    q = tier == "quick"
    out = [Task("pinned", "t_pinned"), Task("threads", "t_threads", reps=4 if q else 60)]
    for s in range(15):
        out.append(Task(f"machine-{s}", "t_machine", shard=s, histories=24 if q else 400, steps=30 if q else 50,
                        budget=40 if q else 60, fresh_every=4 if q else 5))
    return out


if __name__ == "__main__":
    _fresh_main(sys.argv[1])
