"""Shared Hypothesis strategies."""
from hypothesis import strategies as st

R = 0x73EDA753299D7D483339D80809A1D80553BDA402FFFE5BFEFFFFFFFF00000001
P381 = 0x1A0111EA397FE69A4B1BA7B6434BACD764774B84F38512BF6730D2A0F6B0F6241EABFFFEB153FFFFB9FEFFFFFFFFAAAB

BOUNDARY_LENS = (0, 1, 31, 32, 33, 55, 56, 63, 64, 65, 119, 120, 128)


def sized_binary(lengths=BOUNDARY_LENS, max_size=300):
    """Byte strings: boundary lengths with arbitrary content, plus free-length ones."""
    return st.one_of(
        st.sampled_from(lengths).flatmap(lambda n: st.binary(min_size=n, max_size=n)),
        st.binary(max_size=max_size),
        # every length up to max_size with equal weight: st.binary alone is biased towards short strings
        st.integers(0, max_size).flatmap(lambda n: st.binary(min_size=n, max_size=n)),
        st.sampled_from(lengths).map(lambda n: b"\x00" * n),
        st.sampled_from(lengths).map(lambda n: b"\xff" * n),
    )


HUGE_LENS = (65535, 65536, 65537, 131072, 65488, 8192, 4096, (1 << 20) + 1, (1 << 20) + 65536 + 7)


def huge_msg():
    """Messages of 4 KiB .. 128 KiB whose length sits at a power-of-two multiple (streaming / chunking
    boundaries); content is a cheap function of three drawn bytes so that Hypothesis does not have to
    generate 64 KiB of entropy."""
    return st.tuples(st.sampled_from(HUGE_LENS), st.binary(min_size=3, max_size=3)).map(
        lambda t: (t[1] * (t[0] // 3 + 1))[:t[0] - 1] + bytes([t[1][0] ^ 0x5A]))


def msg(max_size=300, big=False, huge_rate=24):
    parts = [sized_binary(max_size=max_size)] * (huge_rate - 1 if huge_rate else 1)
    if big:
        parts.append(st.binary(min_size=2048, max_size=4096))
    if huge_rate:
        parts.append(huge_msg())
    return st.one_of(*parts)


def uniform_int(lo, hi):
    """Full-width values: st.integers() is heavily biased towards small magnitudes."""
    span = hi - lo + 1
    k = (span.bit_length() + 7) // 8 + 8
    return st.binary(min_size=k, max_size=k).map(lambda b: lo + int.from_bytes(b, "big") % span)


def scalar_in(lo, hi, extra=()):
    """Integers of [lo, hi]: both ends, every bit length, and uniform."""
    vals = {lo, lo + 1, hi, hi - 1}
    k = 1
    while (1 << k) <= hi:
        for v in ((1 << k) - 1, 1 << k, (1 << k) + 1):
            if lo <= v <= hi:
                vals.add(v)
        k += 1
    for e in extra:
        if lo <= e <= hi:
            vals.add(e)
    vals = sorted(v for v in vals if lo <= v <= hi)
    # sparse scalars: two to four set bits (plus, sometimes, a small dense tail) with long runs of zeros between them -
    # what a ladder that skips empty words or windows has to get right
    nb = max(hi.bit_length(), 2)
    sparse = st.tuples(st.lists(st.integers(0, nb - 1), min_size=2, max_size=4, unique=True),
                       st.sampled_from([0, 0, 1, 12345, 0xFFFF])).map(
        lambda t: sum(1 << e for e in t[0]) + t[1]).filter(lambda v: lo <= v <= hi)
    return st.one_of(st.sampled_from(vals), uniform_int(lo, hi), uniform_int(lo, hi),
                     st.integers(lo, hi), sparse)


def sk():
    return scalar_in(1, R - 1, extra=(2, 3, R - 2))


def field_elt(p):
    spec = sorted({0, 1, 2, p - 1, p - 2, (p - 1) // 2, (p + 1) // 2} & set(range(0, p)) if p < 50
                  else {0, 1, 2, p - 1, p - 2, (p - 1) // 2, (p + 1) // 2})
    return st.one_of(st.sampled_from(spec), uniform_int(0, p - 1), uniform_int(0, p - 1),
                     st.integers(0, p - 1))
